//! C20 — fallible entry points return errors, never abort; date arithmetic is total.
//!
//! Clause decided by fault injection: loading from JSON text handed back by a faulty store
//! (truncated / torn / byte-damaged documents, lost, duplicated or altered fields,
//! misdirected reads). The valid documents are the bytes that seeded object lives (the C16
//! generator) write to the store. The fault sub-spaces TRUNC, FIELD_DEL, FIELD_DUP,
//! VALUE_ALTER and MISDIRECT are enumerated COMPLETELY per document; BYTE and SPLICE are
//! sampled. The remaining clauses (constructors, date arithmetic, csolve) are pure functions:
//! for them the simulator contributes seeded argument generation over the documented ranges
//! and the global no-unwind monitor only (labelled "generation" in the evidence).

use crate::c10;
use crate::c12;
use crate::c16::{self, CalChoice, ObjSpec};
use crate::core::*;
use crate::gens::*;
use crate::jsonf;
use crate::rng::{mix, Fnv, Rng};
use crate::rsx::*;
use rateslib::calendars::{Cal, CalType, DateRoll, Modifier, NamedCal, RollDay, UnionCal};
use rateslib::curves::{
    CurveDF, FlatBackwardInterpolator, FlatForwardInterpolator, LinearInterpolator,
    LinearZeroRateInterpolator, LogLinearInterpolator,
};
use rateslib::dual::{Dual, Dual2, Gradient1, Gradient2, Number, Vars};
use rateslib::fx::rates::{Ccy, FXPair, FXRate, FXRates};
use rateslib::json::JSON;
use rateslib::splines::{PPSpline, PPSplineDual, PPSplineDual2, PPSplineF64};
use rateslib::verif_hooks as hooks;
use rateslib::verif_hooks::{VerifCurve, VerifObj};
use serde::{Deserialize, Serialize};

pub const P: &str = "C20";

pub const LOADERS: &[&str] = &[
    "tagged",
    "Dual",
    "Dual2",
    "Cal",
    "UnionCal",
    "NamedCal",
    "CalType",
    "FXRates",
    "Curve",
    "CurveDF:linear",
    "CurveDF:log_linear",
    "CurveDF:linear_zero_rate",
    "CurveDF:flat_forward",
    "CurveDF:flat_backward",
    "PPSplineF64",
    "PPSplineDual",
    "PPSplineDual2",
];

#[derive(Clone, Debug, Serialize, Deserialize, PartialEq)]
pub enum DateFn {
    AddDays,
    AddBusDays,
    Lag,
    AddMonths,
    Roll,
    /// `bus_date_range(roll(date), roll(date + count days))`: a reversed range when count < 0
    BusRange,
    /// `cal_date_range(date, date + count days)`
    CalRange,
}

#[derive(Clone, Debug, Serialize, Deserialize, PartialEq)]
pub enum RollSpec {
    Unspecified,
    Int(u32),
    EoM,
    SoM,
    Imm,
}

#[derive(Clone, Debug, Serialize, Deserialize, PartialEq)]
pub struct QuoteArg {
    pub lhs: String,
    pub rhs: String,
    pub num: Num,
    pub settle: Option<i64>,
}

#[derive(Clone, Debug, Serialize, Deserialize, PartialEq)]
pub enum CallSpec {
    DualNew {
        v: Fx,
        vars: Vec<String>,
        dual: Vec<Fx>,
    },
    Dual2New {
        v: Fx,
        vars: Vec<String>,
        dual: Vec<Fx>,
        dual2: Vec<Fx>,
    },
    DualNewFrom {
        base_vars: Vec<String>,
        v: Fx,
        vars: Vec<String>,
        dual: Vec<Fx>,
        second_order: bool,
    },
    Ccy(String),
    FxPair(String, String),
    FxRate(String, String),
    FxRatesNew {
        quotes: Vec<QuoteArg>,
        base: Option<String>,
    },
    NamedCal(String),
    /// date arithmetic swept over a list of day / month counts
    DateSweep {
        cal: CalChoice,
        /// seconds since epoch
        date: i64,
        func: DateFn,
        modifier: u8,
        settlement: bool,
        roll: RollSpec,
        counts: Vec<i32>,
        /// non-empty: the calendar is wrapped in a USER implementation of the public
        /// `DateRoll` trait that declares these datetimes (seconds since epoch) working days
        /// by overriding the provided `is_bus_day` (make-up working days)
        #[serde(default)]
        makeup: Vec<i64>,
        /// Some(t): the user calendar is a market with a FIRST trading day - no datetime
        /// before t is a business day (only adjustments that have an answer are asked)
        #[serde(default)]
        opens_on: Option<i64>,
    },
    Csolve {
        spec: SplineSpec,
        tau: Vec<Fx>,
        y: Vec<Num>,
        left_n: usize,
        right_n: usize,
        allow_lsq: bool,
    },
    /// several solves on ONE spline object (a history: what an earlier solve, successful or
    /// refused, leaves behind must not make a later one abort)
    CsolveSeq {
        spec: SplineSpec,
        calls: Vec<SolveSpec>,
        /// length of a coefficient vector given to `PPSpline::new` (which does not check it)
        #[serde(default)]
        preset_c: Option<usize>,
    },
}

#[derive(Clone, Debug, Serialize, Deserialize, PartialEq)]
pub enum Plan {
    Load {
        loader: String,
        text: String,
        /// fault kind (TRUNC, SPLICE, BYTE, FIELD_DEL, FIELD_DUP, VALUE_ALTER, MISDIRECT, NONE)
        fault: String,
        /// where the document came from and what was done to it (for the reader)
        origin: String,
    },
    Call(CallSpec),
}

// ------------------------------------------------------------------ documents

pub const DOC_TYPES: usize = 15;
pub const DOC_TYPE_NAMES: [&str; DOC_TYPES] = [
    "Dual",
    "Dual2",
    "Cal",
    "UnionCal",
    "NamedCal",
    "FXRates",
    "Curve",
    "CurveDF:linear",
    "CurveDF:log_linear",
    "CurveDF:linear_zero_rate",
    "CurveDF:flat_forward",
    "CurveDF:flat_backward",
    "PPSplineF64",
    "PPSplineDual",
    "PPSplineDual2",
];

pub struct Doc {
    pub home_loader: String,
    pub text: String,
    /// an earlier version of the same object (for torn overwrites)
    pub older: Option<String>,
    pub tagged: Option<(String, Option<String>)>,
    pub recipe: String,
}

fn short_values(rng: &mut Rng) -> f64 {
    match rng.below(4) {
        0 => (rng.i64_in(1, 400) as f64) / 8.0,
        1 => awkward(rng, 0.01, 100.0, true),
        2 => rng.i64_in(1, 9) as f64,
        _ => awkward(rng, 0.5, 2.0, false),
    }
}

/// Build the object of one document unit and run a short life on it; returns the object at
/// two successive points of its life (older, newer).
fn doc_object(rng: &mut Rng, ty: usize, size: usize) -> Result<(c16::Obj, c16::Obj, String), Fail> {
    let herr = |s: &str| Fail::Harness(HarnessError(s.to_string()));
    let (spec, ops): (ObjSpec, Vec<c16::Op>) = match ty {
        0 | 1 => {
            let nv = match size {
                0 => 1,
                1 => 3,
                _ => 40,
            };
            let names: Vec<String> = if size >= 2 {
                (0..nv).map(|i| format!("v{}", i)).collect()
            } else {
                crate::rsx::gen_names(rng, nv, "")
            };
            let x = gen_num_with(rng, (ty + 1) as u8, nv, names, &mut short_values);
            (
                ObjSpec::Number {
                    x,
                    partner_value: Fx::new(1.0),
                    partner_vars: vec![],
                },
                vec![],
            )
        }
        2 => (
            ObjSpec::Cal(gen_cal(
                rng,
                2,
                match size {
                    0 => 2,
                    1 => 7,
                    _ => 60,
                },
            )),
            vec![],
        ),
        3 => {
            let mut u = gen_union(rng, if size == 0 { 2 } else { 4 });
            if u.members.is_empty() {
                u.members.push(gen_cal(rng, 2, 2));
            }
            (ObjSpec::Union(u), vec![])
        }
        4 => (ObjSpec::Named(gen_named(rng)), vec![]),
        5 => {
            let mut plan;
            loop {
                plan = c10::generate(rng, Tier::Quick);
                let n = plan.setup.quotes.len();
                if (size == 0 && n <= 2)
                    || (size == 1 && (2..=4).contains(&n))
                    || (size >= 2 && n >= 6)
                {
                    break;
                }
            }
            for q in plan.setup.quotes.iter_mut() {
                q.num = q.num.with_value(short_values(rng).abs().max(0.01));
            }
            let mut ops = Vec::new();
            for s in plan.steps.into_iter().take(3) {
                if let c10::Step::Update { items, .. } = s {
                    ops.push(c16::Op::Update(items));
                }
            }
            (ObjSpec::Fx(plan.setup), ops)
        }
        6..=11 => {
            let mut base;
            loop {
                base = c12::generate(rng, Tier::Quick);
                let n = base.setup.nodes.len();
                if (size == 0 && n <= 2)
                    || (size == 1 && (3..=4).contains(&n))
                    || (size >= 2 && n >= 21)
                {
                    break;
                }
            }
            let mut setup = base.setup;
            for n in setup.nodes.iter_mut() {
                n.num = n.num.with_value(short_values(rng).abs().max(0.01));
            }
            let cal;
            if ty == 6 {
                if !matches!(setup.ctor, c12::Ctor::Py { .. }) {
                    setup.ctor = c12::Ctor::Py {
                        ad: rng.below(3) as u8,
                    };
                }
                cal = match rng.below(3) {
                    0 => CalChoice::Cal(gen_cal(rng, 2, 2)),
                    1 => {
                        let mut u = gen_union(rng, 2);
                        u.members.truncate(1);
                        CalChoice::Union(u)
                    }
                    _ => CalChoice::Named(gen_named(rng)),
                };
            } else {
                setup.ctor = c12::Ctor::Df;
                c12::unify_kinds(&mut setup);
                setup.interp = c12::INTERPS[ty - 7].to_string();
                cal = CalChoice::Named("all".into());
            }
            (
                ObjSpec::Curve {
                    setup,
                    cal,
                    queries: vec![],
                },
                vec![c16::Op::SetOrder(rng.below(3) as u8)],
            )
        }
        _ => {
            let mut spec;
            loop {
                spec = gen_spline(rng);
                let n = spec.t.len() - spec.k;
                if (size == 0 && n <= 3) || (size > 0 && (4..=10).contains(&n)) {
                    break;
                }
            }
            spec.kind = (ty - 12) as u8;
            let solve = gen_solve(rng, &spec, false);
            let solve2 = gen_solve(rng, &spec, false);
            (
                ObjSpec::Spline { spec, xs: vec![] },
                vec![c16::Op::Solve(solve), c16::Op::Solve(solve2)],
            )
        }
    };
    let recipe = format!(
        "{} ({}) built from a seeded recipe",
        DOC_TYPE_NAMES[ty],
        match size {
            0 => "small",
            1 => "medium",
            _ => "large",
        }
    );
    let mut older = c16::build_obj(&spec)?;
    let mut newer = c16::build_obj(&spec)?;
    let mut dummy = Vec::new();
    // older = state after all but the last op; newer = after all ops
    for (i, op) in ops.iter().enumerate() {
        if i + 1 < ops.len() {
            c16::apply_op_pub(&mut older, op, &mut dummy);
        }
        c16::apply_op_pub(&mut newer, op, &mut dummy);
    }
    if ops.is_empty() {
        // no life: the older version is a differently valued object of the same recipe kind
        let _ = herr;
    }
    Ok((older, newer, recipe))
}

fn canon(text: Vec<u8>) -> Result<String, Fail> {
    let t = String::from_utf8(text).map_err(|_| HarnessError("saved JSON is not UTF-8".into()))?;
    let mut j = jsonf::parse(&t)
        .map_err(|e| HarnessError(format!("saved JSON does not parse in the harness: {}", e)))?;
    jsonf::canonicalise(&mut j);
    Ok(jsonf::render(&j))
}

pub fn make_doc(seed: u64, unit: u64) -> Result<Doc, Fail> {
    let ty = (unit as usize) % DOC_TYPES;
    let block = (unit as usize) / DOC_TYPES;
    // small, medium alternating; every tenth block (thorough only reaches it) large
    let size = if block % 10 == 9 { 2 } else { block % 2 };
    let mut rng = Rng::new(mix(seed, "C20-doc", unit));
    let (older, newer, recipe) = doc_object(&mut rng, ty, size)?;
    let save = |o: &c16::Obj, m: c16::Medium| -> Result<String, Fail> {
        let bytes = c16::save(o, m, 0).map_err(|e| HarnessError(format!("doc save failed: {}", e)))?;
        canon(bytes)
    };
    let text = save(&newer, c16::Medium::Json)?;
    let old = save(&older, c16::Medium::Json)?;
    let home = DOC_TYPE_NAMES[ty].to_string();
    let tagged = if home.starts_with("CurveDF") {
        None
    } else {
        let t = save(&newer, c16::Medium::Tagged)?;
        let o = save(&older, c16::Medium::Tagged)?;
        Some((t.clone(), if o != t { Some(o) } else { None }))
    };
    Ok(Doc {
        home_loader: home,
        older: if old != text { Some(old) } else { None },
        text,
        tagged,
        recipe,
    })
}

// ------------------------------------------------------------------ loading + invariants

pub enum Loaded {
    Dual(Dual),
    Dual2(Dual2),
    Cal(Cal),
    Union(UnionCal),
    Named(NamedCal),
    CalType(CalType),
    Fx(FXRates),
    Curve(VerifCurve),
    CurveDf(c12::Sut),
    SplF(PPSplineF64),
    SplD(PPSplineDual),
    SplD2(PPSplineDual2),
}

pub fn load_text(loader: &str, text: &str) -> Result<Loaded, String> {
    fn e<E: std::fmt::Display>(x: E) -> String {
        x.to_string()
    }
    Ok(match loader {
        "tagged" => match hooks::from_tagged_json(text)? {
            VerifObj::Dual(v) => Loaded::Dual(v),
            VerifObj::Dual2(v) => Loaded::Dual2(v),
            VerifObj::Cal(v) => Loaded::Cal(v),
            VerifObj::UnionCal(v) => Loaded::Union(v),
            VerifObj::NamedCal(v) => Loaded::Named(v),
            VerifObj::FXRates(v) => Loaded::Fx(v),
            VerifObj::Curve(v) => Loaded::Curve(v),
            VerifObj::PPSplineF64(v) => Loaded::SplF(v),
            VerifObj::PPSplineDual(v) => Loaded::SplD(v),
            VerifObj::PPSplineDual2(v) => Loaded::SplD2(v),
        },
        "Dual" => Loaded::Dual(serde_json::from_str(text).map_err(e)?),
        "Dual2" => Loaded::Dual2(serde_json::from_str(text).map_err(e)?),
        "Cal" => Loaded::Cal(Cal::from_json(text).map_err(e)?),
        "UnionCal" => Loaded::Union(UnionCal::from_json(text).map_err(e)?),
        "NamedCal" => Loaded::Named(NamedCal::from_json(text).map_err(e)?),
        "CalType" => Loaded::CalType(CalType::from_json(text).map_err(e)?),
        "FXRates" => Loaded::Fx(FXRates::from_json(text).map_err(e)?),
        "Curve" => Loaded::Curve(VerifCurve::from_json_direct(text)?),
        "CurveDF:linear" => Loaded::CurveDf(c12::Sut::Lin(
            CurveDF::<LinearInterpolator, NamedCal>::from_json(text).map_err(e)?,
        )),
        "CurveDF:log_linear" => Loaded::CurveDf(c12::Sut::LogLin(
            CurveDF::<LogLinearInterpolator, NamedCal>::from_json(text).map_err(e)?,
        )),
        "CurveDF:linear_zero_rate" => Loaded::CurveDf(c12::Sut::LinZero(
            CurveDF::<LinearZeroRateInterpolator, NamedCal>::from_json(text).map_err(e)?,
        )),
        "CurveDF:flat_forward" => Loaded::CurveDf(c12::Sut::FlatF(
            CurveDF::<FlatForwardInterpolator, NamedCal>::from_json(text).map_err(e)?,
        )),
        "CurveDF:flat_backward" => Loaded::CurveDf(c12::Sut::FlatB(
            CurveDF::<FlatBackwardInterpolator, NamedCal>::from_json(text).map_err(e)?,
        )),
        "PPSplineF64" => Loaded::SplF(serde_json::from_str(text).map_err(e)?),
        "PPSplineDual" => Loaded::SplD(serde_json::from_str(text).map_err(e)?),
        "PPSplineDual2" => Loaded::SplD2(serde_json::from_str(text).map_err(e)?),
        other => return Err(format!("unknown loader {}", other)),
    })
}

fn shape_dual(d: &Dual) -> Result<(), String> {
    if d.vars().len() != d.dual().len() {
        return Err(format!(
            "Dual with {} variables and {} first-order coefficients",
            d.vars().len(),
            d.dual().len()
        ));
    }
    Ok(())
}

fn shape_dual2(d: &Dual2) -> Result<(), String> {
    let n = d.vars().len();
    if n != d.dual().len() {
        return Err(format!(
            "Dual2 with {} variables and {} first-order coefficients",
            n,
            d.dual().len()
        ));
    }
    let s = d.dual2().shape();
    if s[0] != n || s[1] != n {
        return Err(format!(
            "Dual2 with {} variables and a {}x{} second-order array",
            n, s[0], s[1]
        ));
    }
    Ok(())
}

fn shape_number(n: &Number) -> Result<(), String> {
    match n {
        Number::F64(_) => Ok(()),
        Number::Dual(d) => shape_dual(d),
        Number::Dual2(d) => shape_dual2(d),
    }
}

fn shape_spline<T>(p: &PPSpline<T>, elem: &dyn Fn(&T) -> Result<(), String>) -> Result<(), String> {
    let (k, n, t) = (*p.k(), *p.n(), p.t());
    if t.len() <= 1 {
        return Err(format!("PPSpline with {} knots", t.len()));
    }
    if k > t.len() || n != t.len() - k {
        return Err(format!(
            "PPSpline with n = {} but {} knots and order {}",
            n,
            t.len(),
            k
        ));
    }
    if !t.windows(2).all(|w| w[1] >= w[0]) {
        return Err("PPSpline with a knot sequence that is not non-decreasing".into());
    }
    if let Some(c) = p.c() {
        if c.len() != n {
            return Err(format!("PPSpline with n = {} and {} coefficients", n, c.len()));
        }
        for x in c.iter() {
            elem(x)?;
        }
    }
    Ok(())
}

/// Currencies (exactly as the object holds them: a loaded currency need not satisfy the
/// constructor's case/length rule) and quote count of an FXRates, read from its own JSON.
fn fx_layout(f: &FXRates) -> Result<(Vec<Ccy>, usize), String> {
    let t = f.to_json().map_err(|e| e.to_string())?;
    let v: serde_json::Value = serde_json::from_str(&t).map_err(|e| e.to_string())?;
    let mut ccys = Vec::new();
    for c in v["currencies"].as_array().ok_or("no currencies")? {
        ccys.push(serde_json::from_value::<Ccy>(c.clone()).map_err(|e| e.to_string())?);
    }
    let nq = v["fx_rates"].as_array().ok_or("no fx_rates")?.len();
    Ok((ccys, nq))
}

fn shape_fx(f: &FXRates) -> Result<(), String> {
    let (ccys, nq) = fx_layout(f)?;
    if ccys.len() != nq + 1 {
        return Err(format!(
            "FXRates with {} currencies and {} quotes",
            ccys.len(),
            nq
        ));
    }
    for a in &ccys {
        for b in &ccys {
            match f.rate(a, b) {
                Some(n) => {
                    shape_number(&n)?;
                    // the rate of a currency against itself is exactly 1 in every market the
                    // constructor can build, whatever its quotes hold
                    if a == b {
                        let r = see(&n).real;
                        if r != 1.0 {
                            return Err(format!("FXRates whose rate of a currency against itself is {:e}", r));
                        }
                    }
                }
                None => return Err("FXRates without a rate for one of its own currency pairs".into()),
            }
        }
    }
    Ok(())
}

pub fn check_shape(l: &Loaded) -> Result<(), String> {
    match l {
        Loaded::Dual(d) => shape_dual(d),
        Loaded::Dual2(d) => shape_dual2(d),
        Loaded::Cal(_) | Loaded::Union(_) | Loaded::CalType(_) => Ok(()),
        Loaded::Named(n) => {
            let t = n.to_json().map_err(|e| e.to_string())?;
            let v: serde_json::Value = serde_json::from_str(&t).map_err(|e| e.to_string())?;
            let name = v["name"].as_str().unwrap_or("").to_string();
            match NamedCal::try_new(&name) {
                Ok(fresh) => {
                    // spot check: union consistent with the name
                    for day in [19800_i64, 19815, 19843, 19900, 20088] {
                        let d = ts_to_ndt(day * 86_400);
                        if fresh.is_bus_day(&d) != n.is_bus_day(&d)
                            || fresh.is_settlement(&d) != n.is_settlement(&d)
                        {
                            return Err(format!(
                                "NamedCal '{}' behaves differently from its name",
                                name
                            ));
                        }
                    }
                    Ok(())
                }
                Err(_) => Err(format!("NamedCal loaded with a name '{}' that the constructor refuses", name)),
            }
        }
        Loaded::Fx(f) => shape_fx(f),
        Loaded::Curve(c) => {
            for (_, n) in c.nodes() {
                shape_number(&n)?;
            }
            Ok(())
        }
        Loaded::CurveDf(_) => Ok(()),
        Loaded::SplF(p) => shape_spline(hooks::ppspline_f64_inner(p), &|_| Ok(())),
        Loaded::SplD(p) => shape_spline(hooks::ppspline_dual_inner(p), &shape_dual),
        Loaded::SplD2(p) => shape_spline(hooks::ppspline_dual2_inner(p), &shape_dual2),
    }
}

/// A loaded calendar is queried through the date-arithmetic entry points, provided it meets
/// their stated precondition (some weekday works, and the settlement side opens too).
fn exercise_calendar<C: DateRoll>(c: &C) {
    let week: Vec<chrono::NaiveDateTime> = (0..14).map(|k| ts_to_ndt((20_000 + k) * 86_400)).collect();
    if !week.iter().any(|d| c.is_weekday(d)) {
        return;
    }
    // business day AND settlement day somewhere within a year of the probe dates
    let opens = |from: i64| {
        (0..370).any(|k| {
            let d = ts_to_ndt((from + k) * 86_400);
            c.is_bus_day(&d) && c.is_settlement(&d)
        }) && (0..370).any(|k| {
            let d = ts_to_ndt((from - k) * 86_400);
            c.is_bus_day(&d) && c.is_settlement(&d)
        })
    };
    // the fixed days, and the days around up to six of the calendar's own holidays
    let mut days: Vec<i64> = vec![10_957, 10_960, 11_322, 19_000, 19_723];
    let mut seen = 0;
    for day in 10_000i64..32_000 {
        if c.is_holiday(&ts_to_ndt(day * 86_400)) {
            days.extend([day - 2, day - 1, day, day + 1]);
            seen += 1;
            if seen >= 6 {
                break;
            }
        }
    }
    for day in days {
        if !opens(day) {
            continue;
        }
        let d = ts_to_ndt(day * 86_400);
        for s in [false, true] {
            for n in [-3i8, -1, 0, 1, 2] {
                let _ = c.lag(&d, n, s);
                let _ = c.add_bus_days(&d, n, s);
                let _ = c.add_days(&d, n, &Modifier::ModF, s);
            }
            for m in [Modifier::Act, Modifier::F, Modifier::ModF, Modifier::P, Modifier::ModP] {
                let _ = c.roll(&d, &m, s);
            }
            let _ = c.add_months(&d, 1, &Modifier::ModF, &RollDay::Unspecified {}, s);
            let _ = c.add_months(&d, -13, &Modifier::P, &RollDay::EoM {}, s);
        }
    }
}

/// A value that a loader accepted is handed to Python's pickle (which drives the class's
/// `__getnewargs__`, `__getstate__`, `__new__`, `__setstate__`): an exception is fine (years
/// Python cannot hold, ...), a panic inside the bindings is not.
fn pickle_loaded(l: &Loaded) {
    if crate::orchestrate::bare() {
        return;
    }
    pyo3::Python::with_gil(|py| {
        use pyo3::Py;
        let obj: Option<pyo3::PyObject> = match l {
            Loaded::Dual(v) => Py::new(py, v.clone()).ok().map(|o| o.into_any()),
            Loaded::Dual2(v) => Py::new(py, v.clone()).ok().map(|o| o.into_any()),
            Loaded::Cal(v) => Py::new(py, v.clone()).ok().map(|o| o.into_any()),
            Loaded::Union(v) => Py::new(py, v.clone()).ok().map(|o| o.into_any()),
            Loaded::Named(v) => Py::new(py, v.clone()).ok().map(|o| o.into_any()),
            Loaded::Fx(v) => Py::new(py, v.clone()).ok().map(|o| o.into_any()),
            Loaded::Curve(v) => v.clone().into_py_object(py).ok(),
            Loaded::SplF(v) => Py::new(py, v.clone()).ok().map(|o| o.into_any()),
            Loaded::SplD(v) => Py::new(py, v.clone()).ok().map(|o| o.into_any()),
            Loaded::SplD2(v) => Py::new(py, v.clone()).ok().map(|o| o.into_any()),
            Loaded::CalType(_) | Loaded::CurveDf(_) => None,
        };
        if let Some(o) = obj {
            if let Ok(bytes) = crate::pyx::dumps(py, o) {
                let _ = crate::pyx::loads(py, &bytes);
            }
        }
    });
}

/// Use after load, for types whose query totality follows from the shape invariants alone.
pub fn exercise(l: &Loaded) {
    pickle_loaded(l);
    match l {
        Loaded::Dual(d) => {
            let n = Number::Dual(d.clone());
            let _ = &n + &n;
            let _ = &n * &n;
            let _ = &n - &Number::F64(1.0);
            let names: Vec<String> = d.vars().iter().cloned().collect();
            let _ = d.gradient1(names);
            let _ = d == d;
        }
        Loaded::Dual2(d) => {
            let n = Number::Dual2(d.clone());
            let _ = &n + &n;
            let _ = &n * &n;
            let names: Vec<String> = d.vars().iter().cloned().collect();
            let _ = d.gradient1(names.clone());
            let _ = d.gradient2(names);
            let _ = d == d;
        }
        Loaded::Fx(f) => {
            if let Ok((ccys, _)) = fx_layout(f) {
                let mut g = f.clone();
                for o in [0u8, 1, 2, 1] {
                    let _ = g.set_ad_order(order_of(o));
                    for a in &ccys {
                        for b in &ccys {
                            let _ = g.rate(a, b);
                        }
                    }
                }
                let _ = g == *f;
            }
        }
        Loaded::Cal(c) => exercise_calendar(c),
        Loaded::Union(c) => exercise_calendar(c),
        Loaded::Named(c) => exercise_calendar(c),
        Loaded::CalType(c) => exercise_calendar(c),
        Loaded::Curve(c) => {
            // the fallible curve entry point; look-ups need two nodes (not demanded of a load)
            // (a Null-interpolated curve refuses look-ups by contract: only before its first node)
            let nodes = c.nodes();
            let null = c.to_json_direct().map(|t| t.contains("\"Null\"")).unwrap_or(true);
            if nodes.len() >= 2 {
                let first = *nodes.keys().min().unwrap();
                let last = *nodes.keys().max().unwrap();
                let day = chrono::Duration::days(1);
                if let Some(d) = first.checked_sub_signed(day) {
                    let _ = c.index_value(d);
                }
                if !null {
                    // (the stored order of a loaded document need not be ascending: ask at
                    // both ends, beyond them and in between; dates stay representable)
                    for d in [
                        Some(first),
                        first.checked_add_signed(day),
                        {
                            let (a, b) = (first.and_utc().timestamp(), last.and_utc().timestamp());
                            chrono::DateTime::from_timestamp(a + (b - a) / 2, 0).map(|d| d.naive_utc())
                        },
                        Some(last),
                        last.checked_add_signed(day),
                    ]
                    .into_iter()
                    .flatten()
                    {
                        let _ = c.index_value(d);
                    }
                }
            }
        }
        Loaded::CurveDf(c) => {
            // same for the generic curve of each interpolator (its node keys through JSON)
            let keys: Vec<i64> = c
                .to_json()
                .ok()
                .and_then(|t| jsonf::parse(&t).ok())
                .map(|tree| {
                    let mut ks = Vec::new();
                    for p in jsonf::paths(&tree) {
                        if let Some(jsonf::J::Obj(m)) = jsonf::get(&tree, &p) {
                            for (k, _) in m {
                                if let Ok(x) = k.trim_matches('"').parse::<i64>() {
                                    ks.push(x);
                                }
                            }
                        }
                    }
                    ks
                })
                .unwrap_or_default();
            if keys.len() >= 2 {
                let (first, last) = (*keys.iter().min().unwrap(), *keys.iter().max().unwrap());
                if last.checked_sub(first).is_some() && first.abs() < 8_000_000_000_000 && last.abs() < 8_000_000_000_000 {
                    for t in [first - 86_400, first, first + 86_400, first + (last - first) / 2, last, last + 86_400] {
                        if let Some(d) = chrono::DateTime::from_timestamp(t, 0) {
                            let _ = c.index_value(&d.naive_utc());
                        }
                    }
                }
            }
        }
        // (a spline of order 0 - accepted by `PPSpline::new` as by the loader - is outside
        // the definition of a B-spline, whose base case is order 1: it is not evaluated)
        Loaded::SplF(p) if *hooks::ppspline_f64_inner(p).k() == 0 => {}
        Loaded::SplD(p) if *hooks::ppspline_dual_inner(p).k() == 0 => {}
        Loaded::SplD2(p) if *hooks::ppspline_dual2_inner(p).k() == 0 => {}
        Loaded::SplF(p) => {
            let p = hooks::ppspline_f64_inner(p);
            for x in p.t().clone() {
                for m in 0..=*p.k() {
                    let _ = p.ppdnev_single(&x, m);
                }
            }
        }
        Loaded::SplD(p) => {
            let p = hooks::ppspline_dual_inner(p);
            for x in p.t().clone() {
                let _ = p.ppdnev_single(&x, 0);
            }
        }
        Loaded::SplD2(p) => {
            let p = hooks::ppspline_dual2_inner(p);
            for x in p.t().clone() {
                let _ = p.ppdnev_single(&x, 0);
            }
        }
        _ => {}
    }
}

// ------------------------------------------------------------------ execution

fn viol(class: &str, target: &str, stem: &str, msg: String) -> Fail {
    Fail::Violation(Violation::new(
        P,
        format!("{}|{}|{}|{}", P, class, target, stem),
        msg,
    ))
}

fn exec_load(loader: &str, text: &str, fault: &str, origin: &str, obs: &mut Obs) -> Result<(), Fail> {
    let r = guard(|| load_text(loader, text));
    let mut h = Fnv::new();
    h.str(loader);
    let outcome;
    match r {
        Err(p) => {
            return Err(viol(
                "load-panic",
                loader,
                &p.stem(),
                format!(
                    "loading JSON text through the {} loader panicked: {} (at {}) [{}]",
                    loader,
                    p.msg.lines().next().unwrap_or(""),
                    p.short_file(),
                    origin
                ),
            ));
        }
        Ok(Err(_)) => {
            outcome = "error";
            h.u64(1);
        }
        Ok(Ok(l)) => {
            h.u64(2);
            match guard(|| check_shape(&l)) {
                Err(p) => {
                    return Err(viol(
                        "shape-check-panic",
                        loader,
                        &p.stem(),
                        format!(
                            "inspecting the value accepted by the {} loader panicked: {} [{}]",
                            loader, p.msg, origin
                        ),
                    ))
                }
                Ok(Err(what)) => {
                    let stem: String = what
                        .chars()
                        .map(|c| if c.is_ascii_digit() { '#' } else { c })
                        .collect();
                    return Err(viol(
                        "shape",
                        loader,
                        &stem.replace("##", "#").replace("##", "#"),
                        format!(
                            "the {} loader accepted a document and produced a value that breaks its type's shape invariant: {} [{}]",
                            loader, what, origin
                        ),
                    ));
                }
                Ok(Ok(())) => {}
            }
            if let Err(p) = guard(|| exercise(&l)) {
                return Err(viol(
                    "use-after-load-panic",
                    loader,
                    &p.stem(),
                    format!(
                        "a value accepted by the {} loader panicked when used: {} (at {}) [{}]",
                        loader,
                        p.msg.lines().next().unwrap_or(""),
                        p.short_file(),
                        origin
                    ),
                ));
            }
            outcome = if fault == "NONE" { "ok" } else { "accepted" };
            if fault != "NONE" {
                obs.count("reach.accepted_but_altered_document");
            }
        }
    }
    obs.count(&format!("fault.{}", fault));
    obs.count(&format!("outcome.{}.{}", fault, outcome));
    let mut s = Fnv::new();
    s.str(loader);
    s.str(fault);
    s.str(outcome);
    obs.state(s.finish());
    obs.event("load", h.finish());
    Ok(())
}

fn build_cal(c: &CalChoice) -> Result<CalType, Fail> {
    Ok(match c {
        CalChoice::Named(n) => CalType::NamedCal(
            named(n).map_err(|e| Fail::Harness(HarnessError(e)))?,
        ),
        CalChoice::Cal(s) => CalType::Cal(s.build()),
        CalChoice::Union(u) => CalType::UnionCal(u.build()),
    })
}

/// A user's calendar: the public trait implemented outside the library. The three required
/// methods delegate; the provided `is_bus_day` is overridden to add make-up working days.
struct UserCal {
    base: CalType,
    working: Vec<chrono::NaiveDateTime>,
    opens_on: Option<chrono::NaiveDateTime>,
    /// true: the listed days are extra CLOSURES (ad-hoc closing days on top of week mask and
    /// holiday list) instead of make-up working days
    closes: bool,
}

impl DateRoll for UserCal {
    fn is_weekday(&self, date: &chrono::NaiveDateTime) -> bool {
        self.base.is_weekday(date)
    }
    fn is_holiday(&self, date: &chrono::NaiveDateTime) -> bool {
        self.base.is_holiday(date)
    }
    fn is_settlement(&self, date: &chrono::NaiveDateTime) -> bool {
        self.base.is_settlement(date)
    }
    fn is_bus_day(&self, date: &chrono::NaiveDateTime) -> bool {
        if let Some(t) = &self.opens_on {
            if date < t {
                return false;
            }
        }
        if self.closes {
            return !self.working.contains(date) && self.is_weekday(date) && !self.is_holiday(date);
        }
        self.working.contains(date) || (self.is_weekday(date) && !self.is_holiday(date))
    }
}

impl UserCal {
    /// Is there a business day within 400 days of `d` in the given direction (inclusive)?
    fn has_bus_day(&self, d: &chrono::NaiveDateTime, forward: bool) -> Option<chrono::NaiveDateTime> {
        let mut x = *d;
        for _ in 0..400 {
            if self.is_bus_day(&x) {
                return Some(x);
            }
            x = if forward { x + chrono::Days::new(1) } else { x - chrono::Days::new(1) };
        }
        None
    }
    /// Does adjusting `d` under `m` (without settlement) have an answer on this calendar?
    fn adjustable(&self, d: &chrono::NaiveDateTime, m: &Modifier) -> bool {
        use chrono::Datelike;
        match m {
            Modifier::Act => true,
            Modifier::F => self.has_bus_day(d, true).is_some(),
            Modifier::P => self.has_bus_day(d, false).is_some(),
            Modifier::ModF => match self.has_bus_day(d, true) {
                Some(x) => x.month() == d.month() || self.has_bus_day(d, false).is_some(),
                None => false,
            },
            Modifier::ModP => match self.has_bus_day(d, false) {
                Some(x) => x.month() == d.month() || self.has_bus_day(d, true).is_some(),
                None => false,
            },
        }
    }
}

#[allow(clippy::too_many_arguments)]
fn sweep_dates<C: DateRoll>(
    cal: &C,
    d: chrono::NaiveDateTime,
    m: Modifier,
    r: RollDay,
    settlement: bool,
    func: &DateFn,
    counts: &[i32],
    roll: &RollSpec,
    obs: &mut Obs,
    panic_to: &dyn Fn(&str, PanicInfo, String) -> Fail,
) -> Result<(), Fail> {
    for c in counts {
        let (target, res): (&str, Result<(), PanicInfo>) = match func {
            DateFn::AddDays => (
                "DateRoll::add_days",
                guard(|| {
                    let _ = cal.add_days(&d, *c as i8, &m, settlement);
                }),
            ),
            DateFn::AddBusDays => (
                "DateRoll::add_bus_days",
                guard(|| {
                    let _ = cal.add_bus_days(&d, *c as i8, settlement);
                }),
            ),
            DateFn::Lag => (
                "DateRoll::lag",
                guard(|| {
                    let _ = cal.lag(&d, *c as i8, settlement);
                }),
            ),
            DateFn::AddMonths => (
                "DateRoll::add_months",
                guard(|| {
                    let _ = cal.add_months(&d, *c, &m, &r, settlement);
                }),
            ),
            DateFn::Roll => (
                "DateRoll::roll",
                guard(|| {
                    let _ = cal.roll(&d, &m, settlement);
                }),
            ),
            DateFn::BusRange => (
                "DateRoll::bus_date_range",
                guard(|| {
                    let e0 = d + chrono::Duration::days(*c as i64);
                    let (a, b) = (cal.roll_forward_bus_day(&d), cal.roll_forward_bus_day(&e0));
                    let _ = cal.bus_date_range(&a, &b);
                    // and the raw end points (an error when they are not business days)
                    let _ = cal.bus_date_range(&d, &e0);
                }),
            ),
            DateFn::CalRange => (
                "DateRoll::cal_date_range",
                guard(|| {
                    let e0 = d + chrono::Duration::days(*c as i64);
                    let _ = cal.cal_date_range(&d, &e0);
                }),
            ),
        };
        if let Err(p) = res {
            return Err(panic_to(
                target,
                p,
                format!(
                    "date {}, count {}, modifier {:?}, settlement {}, roll {:?}",
                    d, c, m, settlement, roll
                ),
            ));
        }
        obs.count(&format!("call.{}", target));
    }
    Ok(())
}

fn modifier_of(m: u8) -> Modifier {
    match m % 5 {
        0 => Modifier::Act,
        1 => Modifier::F,
        2 => Modifier::ModF,
        3 => Modifier::P,
        _ => Modifier::ModP,
    }
}

fn exec_call(c: &CallSpec, obs: &mut Obs) -> Result<(), Fail> {
    let fl = |x: &Vec<Fx>| -> Vec<f64> { x.iter().map(|v| v.get()).collect() };
    let panic_to = |target: &str, p: PanicInfo, detail: String| -> Fail {
        viol(
            "panic",
            target,
            &p.stem(),
            format!(
                "{} panicked: {} (at {}) [{}]",
                target,
                p.msg.lines().next().unwrap_or(""),
                p.short_file(),
                detail
            ),
        )
    };
    let shape_to = |target: &str, what: String| -> Fail {
        viol(
            "shape",
            target,
            "constructor",
            format!("{} returned a value that breaks its shape invariant: {}", target, what),
        )
    };
    match c {
        CallSpec::DualNew { v, vars, dual } => {
            let t = "Dual::try_new";
            match guard(|| Dual::try_new(v.get(), vars.clone(), fl(dual))) {
                Err(p) => return Err(panic_to(t, p, format!("{} vars, {} coefficients", vars.len(), dual.len()))),
                Ok(Ok(d)) => {
                    shape_dual(&d).map_err(|w| shape_to(t, w))?;
                    obs.count("call.Dual::try_new.ok");
                }
                Ok(Err(_)) => obs.count("call.Dual::try_new.err"),
            }
        }
        CallSpec::Dual2New {
            v,
            vars,
            dual,
            dual2,
        } => {
            let t = "Dual2::try_new";
            {
                let mut u = vars.clone();
                u.sort();
                u.dedup();
                if u.len() < vars.len() && !dual2.is_empty() {
                    obs.count("reach.second_order_constructor_with_repeated_names_and_explicit_matrix");
                }
            }
            match guard(|| Dual2::try_new(v.get(), vars.clone(), fl(dual), fl(dual2))) {
                Err(p) => {
                    return Err(panic_to(
                        t,
                        p,
                        format!("{} vars, {} dual, {} dual2", vars.len(), dual.len(), dual2.len()),
                    ))
                }
                Ok(Ok(d)) => {
                    shape_dual2(&d).map_err(|w| shape_to(t, w))?;
                    obs.count("call.Dual2::try_new.ok");
                }
                Ok(Err(_)) => obs.count("call.Dual2::try_new.err"),
            }
        }
        CallSpec::DualNewFrom {
            base_vars,
            v,
            vars,
            dual,
            second_order,
        } => {
            if *second_order {
                let t = "Dual2::try_new_from";
                let base = Dual2::new(1.0, base_vars.clone());
                match guard(|| Dual2::try_new_from(&base, v.get(), vars.clone(), fl(dual), vec![])) {
                    Err(p) => return Err(panic_to(t, p, "".into())),
                    Ok(Ok(d)) => {
                        shape_dual2(&d).map_err(|w| shape_to(t, w))?;
                        obs.count("call.Dual2::try_new_from.ok");
                    }
                    Ok(Err(_)) => obs.count("call.Dual2::try_new_from.err"),
                }
            } else {
                let t = "Dual::try_new_from";
                let base = Dual::new(1.0, base_vars.clone());
                match guard(|| Dual::try_new_from(&base, v.get(), vars.clone(), fl(dual))) {
                    Err(p) => return Err(panic_to(t, p, "".into())),
                    Ok(Ok(d)) => {
                        shape_dual(&d).map_err(|w| shape_to(t, w))?;
                        obs.count("call.Dual::try_new_from.ok");
                    }
                    Ok(Err(_)) => obs.count("call.Dual::try_new_from.err"),
                }
            }
        }
        CallSpec::Ccy(s) => match guard(|| Ccy::try_new(s)) {
            Err(p) => return Err(panic_to("Ccy::try_new", p, format!("name {:?}", s))),
            Ok(Ok(c)) => {
                // the constructor's documented rule: a 3-character (3-byte) name
                let name = serde_json::to_value(c)
                    .ok()
                    .and_then(|v| v["name"].as_str().map(|x| x.to_string()))
                    .unwrap_or_default();
                if name != s.to_lowercase() {
                    return Err(shape_to(
                        "Ccy::try_new",
                        format!(
                            "Ccy::try_new({:?}) returned a currency named {:?}; the constructor converts names to lower case ({:?})",
                            s,
                            name,
                            s.to_lowercase()
                        ),
                    ));
                }
                if name.len() != 3 {
                    return Err(shape_to(
                        "Ccy::try_new",
                        format!(
                            "Ccy::try_new({:?}) returned a currency named {:?} ({} bytes, not 3)",
                            s,
                            name,
                            name.len()
                        ),
                    ));
                }
                obs.count("call.Ccy::try_new.ok")
            }
            Ok(Err(_)) => obs.count("call.Ccy::try_new.err"),
        },
        CallSpec::FxPair(a, b) => match guard(|| FXPair::try_new(a, b)) {
            Err(p) => return Err(panic_to("FXPair::try_new", p, format!("{:?}/{:?}", a, b))),
            Ok(Ok(pair)) => {
                // the constructor's documented rule: two distinct currencies
                let v = serde_json::to_value(pair).unwrap_or(serde_json::Value::Null);
                let (l, r) = (
                    v[0]["name"].as_str().unwrap_or("").to_string(),
                    v[1]["name"].as_str().unwrap_or("?").to_string(),
                );
                if l == r || l != a.to_lowercase() || r != b.to_lowercase() {
                    return Err(shape_to(
                        "FXPair::try_new",
                        format!(
                            "FXPair::try_new({:?}, {:?}) returned the pair ({:?}, {:?}): not two distinct currencies under their lower-case names",
                            a, b, l, r
                        ),
                    ));
                }
                obs.count("call.FXPair::try_new.ok")
            }
            Ok(Err(_)) => obs.count("call.FXPair::try_new.err"),
        },
        CallSpec::FxRate(a, b) => {
            match guard(|| FXRate::try_new(a, b, Number::F64(1.25), None)) {
                Err(p) => return Err(panic_to("FXRate::try_new", p, format!("{:?}/{:?}", a, b))),
                Ok(Ok(_)) => obs.count("call.FXRate::try_new.ok"),
                Ok(Err(_)) => obs.count("call.FXRate::try_new.err"),
            }
        }
        CallSpec::FxRatesNew { quotes, base } => {
            let t = "FXRates::try_new";
            let mut rs = Vec::new();
            for q in quotes {
                let num = q
                    .num
                    .to_number()
                    .map_err(|e| Fail::Harness(HarnessError(e)))?;
                match FXRate::try_new(&q.lhs, &q.rhs, num, q.settle.map(day_to_ndt)) {
                    Ok(r) => rs.push(r),
                    Err(_) => {
                        return Err(Fail::Harness(HarnessError(
                            "FxRatesNew plan holds an invalid pair".into(),
                        )))
                    }
                }
            }
            let b = match base {
                Some(b) => match Ccy::try_new(b) {
                    Ok(c) => Some(c),
                    Err(_) => None,
                },
                None => None,
            };
            match guard(|| FXRates::try_new(rs, b)) {
                Err(p) => return Err(panic_to(t, p, format!("{} quotes", quotes.len()))),
                Ok(Ok(f)) => {
                    match guard(|| shape_fx(&f)) {
                        Err(p) => return Err(panic_to("FXRates::rate", p, "after try_new".into())),
                        Ok(r) => r.map_err(|w| shape_to(t, w))?,
                    }
                    obs.count("call.FXRates::try_new.ok");
                }
                Ok(Err(_)) => obs.count("call.FXRates::try_new.err"),
            }
        }
        CallSpec::NamedCal(name) => match guard(|| NamedCal::try_new(name)) {
            Err(p) => return Err(panic_to("NamedCal::try_new", p, format!("name {:?}", name))),
            Ok(Ok(_)) => obs.count("call.NamedCal::try_new.ok"),
            Ok(Err(_)) => obs.count("call.NamedCal::try_new.err"),
        },
        CallSpec::DateSweep {
            cal,
            date,
            func,
            modifier,
            settlement,
            roll,
            counts,
            makeup,
            opens_on,
        } => {
            // a calendar name the constructor refuses gives no date arithmetic to sweep
            // (whether the refusal is right is C06's business, not this property's)
            let cal = match build_cal(cal) {
                Ok(c) => c,
                Err(_) => {
                    obs.count("skipped.calendar_not_constructible");
                    return Ok(());
                }
            };
            let d = ts_to_ndt(*date);
            let m = modifier_of(*modifier);
            let r = match roll {
                RollSpec::Unspecified => RollDay::Unspecified {},
                RollSpec::Int(x) => RollDay::Int { day: *x },
                RollSpec::EoM => RollDay::EoM {},
                RollSpec::SoM => RollDay::SoM {},
                RollSpec::Imm => RollDay::IMM {},
            };
            if d.and_utc().timestamp() < 0 || d.and_utc().timestamp() > 7_289_654_400 {
                obs.count(if *func == DateFn::AddMonths {
                    "reach.month_addition_from_outside_1970_2200"
                } else {
                    "reach.adjustment_at_the_ends_of_the_representable_dates"
                });
            }
            if let Some(t) = opens_on {
                // a market with a first trading day: only Roll / AddDays without settlement,
                // and only the calls that have an answer (a business day in every direction
                // the rule may need)
                let user = UserCal {
                    base: cal,
                    working: vec![],
                    opens_on: Some(ts_to_ndt(*t)),
                    closes: false,
                };
                if *settlement || !matches!(func, DateFn::Roll | DateFn::AddDays) {
                    return Ok(());
                }
                // (the harness's own membership questions go through the library too: an
                // unwind there is the library's, not the harness's)
                let ok: Vec<i32> = match guard(|| {
                    counts
                        .iter()
                        .cloned()
                        .filter(|c| user.adjustable(&(d + chrono::Duration::days(*c as i64)), &m))
                        .collect::<Vec<i32>>()
                }) {
                    Ok(v) => v,
                    Err(p) => return Err(panic_to("DateRoll::is_bus_day", p, format!("date {}", d))),
                };
                obs.count_n("reach.adjustments_on_a_calendar_with_a_first_trading_day", ok.len() as u64);
                sweep_dates(&user, d, m, r, false, func, &ok, roll, obs, &panic_to)?;
            } else if makeup.is_empty() {
                // through the concrete calendar type (its own trait implementation, which may
                // override provided methods) or through the `CalType` wrapper, alternately
                if d.and_utc().timestamp().div_euclid(86_400) % 2 == 0 {
                    match &cal {
                        CalType::Cal(c) => sweep_dates(c, d, m, r, *settlement, func, counts, roll, obs, &panic_to)?,
                        CalType::UnionCal(c) => sweep_dates(c, d, m, r, *settlement, func, counts, roll, obs, &panic_to)?,
                        CalType::NamedCal(c) => sweep_dates(c, d, m, r, *settlement, func, counts, roll, obs, &panic_to)?,
                    }
                } else {
                    sweep_dates(&cal, d, m, r, *settlement, func, counts, roll, obs, &panic_to)?;
                }
            } else {
                // (an odd number of listed days: they are make-up working days; an even
                // number: ad-hoc closures)
                let user = UserCal {
                    base: cal,
                    working: makeup.iter().map(|t| ts_to_ndt(*t)).collect(),
                    opens_on: None,
                    closes: makeup.len() % 2 == 0,
                };
                match guard(|| user.working.contains(&d) && !(user.is_weekday(&d) && !user.is_holiday(&d))) {
                    Ok(true) => obs.count("reach.user_calendar_started_on_a_make_up_working_day"),
                    Ok(false) => {}
                    Err(p) => return Err(panic_to("DateRoll::is_weekday", p, format!("date {}", d))),
                }
                obs.count("reach.user_implementation_of_the_calendar_trait");
                sweep_dates(&user, d, m, r, *settlement, func, counts, roll, obs, &panic_to)?;
            }
        }
        CallSpec::CsolveSeq {
            spec,
            calls,
            preset_c,
        } => {
            let t: Vec<f64> = spec.t.iter().map(|x| x.get()).collect();
            if t.len() < 2 || spec.k < 1 || t.len() < spec.k {
                return Err(Fail::Harness(HarnessError("bad spline spec".into())));
            }
            let target = "PPSpline::csolve";
            macro_rules! seq {
                ($T:ty, $conv:expr, $shape:expr) => {{
                    let preset: Option<Vec<$T>> = preset_c.map(|m| {
                        (0..m)
                            .map(|i| ($conv)(&Num::F(Fx::new(0.25 + i as f64))))
                            .collect()
                    });
                    let mut p: PPSpline<$T> = PPSpline::new(spec.k, t.clone(), preset);
                    for (ci, c) in calls.iter().enumerate() {
                        let tau = fl(&c.tau);
                        let ys: Vec<$T> = c.y.iter().map($conv).collect();
                        let r = guard(|| {
                            p.csolve(&tau, &ys, c.left_n, c.right_n, c.allow_lsq).is_ok()
                        });
                        match r {
                            Err(pi) => {
                                return Err(panic_to(
                                    target,
                                    pi,
                                    format!(
                                        "call {} of {} on one spline: k={}, {} knots, {} sites, {} values, lsq={}",
                                        ci + 1,
                                        calls.len(),
                                        spec.k,
                                        t.len(),
                                        tau.len(),
                                        c.y.len(),
                                        c.allow_lsq
                                    ),
                                ))
                            }
                            Ok(ok) => {
                                if ok || preset_c.is_none() {
                                    shape_spline(&p, $shape).map_err(|w| shape_to(target, w))?;
                                }
                                obs.count(if ok {
                                    "call.PPSpline::csolve(seq).ok"
                                } else {
                                    "call.PPSpline::csolve(seq).err"
                                });
                            }
                        }
                        // evaluation after each solve must not unwind either
                        let x0 = t[0];
                        if let Err(pi) = guard(|| {
                            let _ = p.ppdnev_single(&x0, 0);
                        }) {
                            return Err(panic_to("PPSpline::ppdnev_single", pi, "after csolve".into()));
                        }
                    }
                }};
            }
            match spec.kind {
                0 => seq!(f64, |n: &Num| n.value(), &|_| Ok(())),
                1 => seq!(
                    Dual,
                    |n: &Num| match n {
                        Num::D { v, g } => to_dual(v.get(), g).unwrap_or(Dual::new(v.get(), vec![])),
                        o => Dual::new(o.value(), vec![]),
                    },
                    &shape_dual
                ),
                _ => seq!(
                    Dual2,
                    |n: &Num| match n {
                        Num::D2 { v, g, h } =>
                            to_dual2(v.get(), g, h).unwrap_or(Dual2::new(v.get(), vec![])),
                        o => Dual2::new(o.value(), vec![]),
                    },
                    &shape_dual2
                ),
            }
        }
        CallSpec::Csolve {
            spec,
            tau,
            y,
            left_n,
            right_n,
            allow_lsq,
        } => {
            let t: Vec<f64> = spec.t.iter().map(|x| x.get()).collect();
            if t.len() < 2 || spec.k < 1 || t.len() < spec.k {
                return Err(Fail::Harness(HarnessError("bad spline spec".into())));
            }
            let tau = fl(tau);
            let target = "PPSpline::csolve";
            macro_rules! go {
                ($T:ty, $conv:expr, $shape:expr) => {{
                    let ys: Vec<$T> = y.iter().map($conv).collect();
                    let k = spec.k;
                    let tt = t.clone();
                    let tau2 = tau.clone();
                    let r = guard(move || {
                        let mut p: PPSpline<$T> = PPSpline::new(k, tt, None);
                        let r = p.csolve(&tau2, &ys, *left_n, *right_n, *allow_lsq);
                        (p, r.is_ok())
                    });
                    match r {
                        Err(p) => {
                            return Err(panic_to(
                                target,
                                p,
                                format!(
                                    "k={}, {} knots, {} sites, {} values, left_n={}, right_n={}, lsq={}",
                                    spec.k,
                                    t.len(),
                                    tau.len(),
                                    y.len(),
                                    left_n,
                                    right_n,
                                    allow_lsq
                                ),
                            ))
                        }
                        Ok((p, ok)) => {
                            shape_spline(&p, $shape).map_err(|w| shape_to(target, w))?;
                            obs.count(if ok {
                                "call.PPSpline::csolve.ok"
                            } else {
                                "call.PPSpline::csolve.err"
                            });
                        }
                    }
                }};
            }
            match spec.kind {
                0 => go!(f64, |n: &Num| n.value(), &|_| Ok(())),
                1 => go!(
                    Dual,
                    |n: &Num| match n {
                        Num::D { v, g } => to_dual(v.get(), g).unwrap_or(Dual::new(v.get(), vec![])),
                        o => Dual::new(o.value(), vec![]),
                    },
                    &shape_dual
                ),
                _ => go!(
                    Dual2,
                    |n: &Num| match n {
                        Num::D2 { v, g, h } =>
                            to_dual2(v.get(), g, h).unwrap_or(Dual2::new(v.get(), vec![])),
                        o => Dual2::new(o.value(), vec![]),
                    },
                    &shape_dual2
                ),
            }
        }
    }
    obs.event("call", 0);
    Ok(())
}

pub fn execute(plan: &Plan, obs: &mut Obs) -> Result<(), Fail> {
    match plan {
        Plan::Load {
            loader,
            text,
            fault,
            origin,
        } => exec_load(loader, text, fault, origin, obs),
        Plan::Call(c) => exec_call(c, obs),
    }
}

// ------------------------------------------------------------------ units

pub fn doc_units(tier: Tier) -> u64 {
    match tier {
        Tier::Quick => 4 * DOC_TYPES as u64,
        Tier::Thorough => 20 * DOC_TYPES as u64,
    }
}

pub fn call_units(tier: Tier) -> u64 {
    match tier {
        Tier::Quick => 1_200,
        Tier::Thorough => 12_000,
    }
}

fn emit_doc_faults(seed: u64, tier: Tier, unit: u64, sink: &mut dyn FnMut(Plan) -> bool) {
    let doc = match make_doc(seed, unit) {
        Ok(d) => d,
        Err(_) => {
            // surfaces as a harness error through an unloadable marker plan
            sink(Plan::Load {
                loader: "harness-doc-generation-failed".into(),
                text: String::new(),
                fault: "NONE".into(),
                origin: format!("unit {}", unit),
            });
            return;
        }
    };
    let mut rng = Rng::new(mix(seed, "C20-faults", unit));
    let mut variants: Vec<(String, String, Option<String>)> =
        vec![(doc.home_loader.clone(), doc.text.clone(), doc.older.clone())];
    if let Some((t, o)) = &doc.tagged {
        variants.push(("tagged".into(), t.clone(), o.clone()));
    }
    if ["Cal", "UnionCal", "NamedCal"].contains(&doc.home_loader.as_str()) {
        // the same calendar inside the CalType container
        variants.push((
            "CalType".into(),
            format!("{{\"{}\":{}}}", doc.home_loader, doc.text),
            None,
        ));
    }
    let nbyte = if tier == Tier::Quick { 150 } else { 600 };
    for (loader, text, older) in variants {
        let origin = |what: &str| format!("{}; {}", doc.recipe, what);
        // the unfaulted document must load
        if !sink(Plan::Load {
            loader: loader.clone(),
            text: text.clone(),
            fault: "NONE".into(),
            origin: origin("no fault"),
        }) {
            return;
        }
        let mut go = |f: jsonf::Faulted| {
            sink(Plan::Load {
                loader: loader.clone(),
                text: f.text,
                fault: f.kind.to_string(),
                origin: format!("{}; {}", doc.recipe, f.what),
            });
        };
        // complete per document up to a size; beyond it (the enumeration is quadratic in the
        // document size) on every stride-th byte / field, the phase seeded
        // (the cost of one faulted load grows with the document: the budget is in
        // byte x plans, about a CPU-minute per document in the thorough tier)
        let work: usize = if tier == Tier::Quick { 400_000_000 } else { 4_000_000_000 };
        let plans = (work / text.len().max(1)).max(2_000);
        let budget = plans / 2;
        let tstride = (text.len() + budget - 1) / budget;
        let phase = rng.below(1 << 20) as usize;
        jsonf::truncations_on(&text, tstride.max(1), phase, &mut go);
        if let Ok(tree) = jsonf::parse(&text) {
            let nfields = jsonf::paths(&tree).len();
            let fbudget = (plans / 2 / 45).max(20);
            let fstride = ((nfields + fbudget - 1) / fbudget).max(1);
            if fstride > 1 || tstride > 1 {
                go(jsonf::Faulted {
                    kind: "NONE",
                    what: format!(
                        "large document ({} bytes, {} fields): faults on every {}th field / {}th cut",
                        text.len(),
                        nfields,
                        fstride,
                        tstride.max(1)
                    ),
                    text: text.clone(),
                });
            }
            jsonf::structured_faults_on(&tree, fstride, phase, &mut go);
            jsonf::ndarray_resizes(&tree, &mut go);
            jsonf::toplevel_combos(&tree, if tier == Tier::Quick { 4000 } else { 40_000 }, &mut go);
            // coordinated multi-field faults: subsets of fields made degenerate together -
            // all subsets when there are at most 10 candidate fields, a seeded sample otherwise
            let nodes = jsonf::degenerate_nodes(&tree);
            let nodes: Vec<jsonf::Path> = nodes.into_iter().take(40).collect();
            if nodes.len() <= 10 {
                for mask in 0..(1u64 << nodes.len()) {
                    if let Some(f) = jsonf::degenerate_combo(&tree, &nodes, mask) {
                        go(f);
                    }
                }
            } else {
                let n = if tier == Tier::Quick { 300 } else { 2000 };
                for _ in 0..n {
                    // sparse random subsets (2..5 fields)
                    let mut mask = 0u64;
                    for _ in 0..rng.usize_in(2, 5) {
                        mask |= 1u64 << rng.below(nodes.len() as u64);
                    }
                    if let Some(f) = jsonf::degenerate_combo(&tree, &nodes, mask) {
                        go(f);
                    }
                }
            }
            // two or three independent random faults applied one after the other (sampled)
            let nd = if tier == Tier::Quick { 120 } else { 800 };
            for _ in 0..nd {
                let mut cur = tree.clone();
                let mut whats: Vec<String> = Vec::new();
                let k = rng.usize_in(2, 3);
                for _ in 0..k {
                    let mut pick = |n: usize| rng.below(n.max(1) as u64) as usize;
                    if let Some((next, w)) = jsonf::random_fault(&cur, &mut pick) {
                        cur = next;
                        whats.push(w);
                    }
                }
                if whats.len() >= 2 {
                    go(jsonf::Faulted {
                        kind: "VALUE_ALTER",
                        what: format!("several faults in sequence: {}", whats.join("; ")),
                        text: jsonf::render(&cur),
                    });
                }
            }
        }
        if tier == Tier::Thorough && text.len() <= 400 {
            // small documents: EVERY single-byte fault
            for pos in 0..text.len() {
                for choice in 0..(jsonf::STRUCTURAL_BYTES.len() + 7) {
                    if let Some(f) = jsonf::byte_fault(&text, pos, choice) {
                        go(f);
                    }
                }
            }
        } else {
            for _ in 0..nbyte {
                let pos = rng.below(text.len() as u64) as usize;
                let choice = rng.below((jsonf::STRUCTURAL_BYTES.len() + 7) as u64) as usize;
                if let Some(f) = jsonf::byte_fault(&text, pos, choice) {
                    go(f);
                }
            }
        }
        if let Some(old) = older {
            let m = text.len().min(old.len());
            let ks: Vec<usize> = if tier == Tier::Quick {
                (0..40).map(|_| rng.below(m as u64 + 1) as usize).collect()
            } else {
                (0..=m).collect()
            };
            for k in ks {
                if let Some(f) = jsonf::splice(&text, &old, k) {
                    go(f);
                }
            }
        }
        // misdirected read: this document handed to every other loader
        for other in LOADERS {
            if *other != loader {
                sink(Plan::Load {
                    loader: other.to_string(),
                    text: text.clone(),
                    fault: "MISDIRECT".into(),
                    origin: format!("{}; document of loader {} read by loader {}", doc.recipe, loader, other),
                });
            }
        }
    }
}

const ODD_CCY: &[&str] = &[
    "", "u", "us", "usd", "USD", "UsD", "usdx", "usdxy", "é", "éa", "ééé", "日本", "u d", "   ",
    "\u{1F600}", "12a", "a\0b", "ǅa", "ß1", "İi", "İ", "\u{212A}", "\u{212B}", "\u{2126}", "\u{1E9E}",
    "\u{212A}sd", "u\u{212A}", "ΑΒ", "ΣΣ", "ǅ", "ᾈ", "ﬁa", "Éa", "éa", "ñX", "Ñx", "Ḁ", "ḁ", "aÉ",
    "aé", "Ωω", "ωΩ",
];

fn all_i8() -> Vec<i32> {
    (-128..=127).collect()
}

fn emit_calls(seed: u64, tier: Tier, unit: u64, sink: &mut dyn FnMut(Plan) -> bool) {
    let mut rng = Rng::new(mix(seed, "C20-calls", unit));
    let r = &mut rng;
    let which = unit % 10;
    let giant = std::cell::Cell::new(false);
    let gen_cal_choice = |r: &mut Rng, near_day: i64| -> CalChoice {
        // rarely a closure of centuries (a settlement calendar that "never" opens again
        // within any horizon of interest): every search loop then runs 10^5 steps
        if r.chance(0.03) {
            giant.set(true);
            let before = r.i64_in(0, 40);
            let len = r.log_uniform(60_000.0, 400_000.0) as i64;
            let closed = CalSpec {
                holidays: ((near_day - before)..(near_day - before + len))
                    .map(|d| (d * 86_400, 0))
                    .collect(),
                mask: if r.chance(0.5) { vec![5, 6] } else { vec![] },
            };
            return if r.chance(0.3) {
                CalChoice::Cal(closed)
            } else {
                CalChoice::Union(UnionSpec {
                    members: vec![CalSpec {
                        holidays: vec![],
                        mask: vec![5, 6],
                    }],
                    settle: Some(vec![closed]),
                })
            };
        }
        // sometimes a closure of more than a year around the date (a run of consecutive
        // holidays), as the business calendar or as the settlement calendar
        if r.chance(0.12) {
            let before = r.i64_in(0, 500);
            let after = r.i64_in(0, 500);
            let closed = CalSpec {
                holidays: ((near_day - before)..=(near_day + after))
                    .map(|d| (d * 86_400, 0))
                    .collect(),
                mask: if r.chance(0.5) { vec![5, 6] } else { vec![] },
            };
            return if r.chance(0.6) {
                CalChoice::Cal(closed)
            } else {
                CalChoice::Union(UnionSpec {
                    members: vec![CalSpec {
                        holidays: vec![],
                        mask: vec![5, 6],
                    }],
                    settle: Some(vec![closed]),
                })
            };
        }
        match r.below(4) {
            0 => CalChoice::Named(gen_named(r)),
            1 => {
                let w = r.below(7) as u8;
                CalChoice::Cal(gen_cal(r, w, 40))
            }
            2 => CalChoice::Union(gen_union(r, 25)),
            _ => {
                // every proper week-mask subset is reachable: a mask with exactly one
                // working day
                let w = r.below(7) as u8;
                CalChoice::Cal(CalSpec {
                    holidays: vec![],
                    mask: (0..7u8).filter(|d| *d != w).collect(),
                })
            }
        }
    };
    let _ = tier;
    match which {
        0..=3 => {
            // day-count arithmetic: all 256 values of the 8-bit parameter
            let date_day = r.i64_in(0, ymd_day(2200, 12, 31));
            let cal = gen_cal_choice(r, date_day);
            // mostly midnight; sometimes a time of day (a datetime on a holiday's DAY is not
            // the holiday itself)
            let date = date_day * 86_400 + if r.chance(0.15) { r.i64_in(1, 86_399) } else { 0 };
            let func = match which {
                0 => DateFn::AddDays,
                1 => DateFn::AddBusDays,
                2 => DateFn::Lag,
                _ => match (unit / 10) % 3 {
                    0 => DateFn::Roll,
                    1 => DateFn::BusRange,
                    _ => DateFn::CalRange,
                },
            };
            // a union whose settlement side never opens on a business day (business Mon-Fri,
            // settlement calendar working Sat/Sun only): legal as long as nobody asks for
            // settlement, so these sweeps run with the settlement flag off only
            // calendars with no business day at all (closed seven days; a union of
            // complementary masks): business-day addition from any date is an immediate
            // refusal, for every count - nothing else is asked of them
            if which == 1 && r.chance(0.06) {
                let closed = if r.chance(0.5) {
                    CalChoice::Cal(CalSpec { holidays: vec![], mask: vec![0, 1, 2, 3, 4, 5, 6] })
                } else {
                    CalChoice::Union(UnionSpec {
                        members: vec![
                            CalSpec { holidays: vec![], mask: vec![0, 1, 2, 3] },
                            CalSpec { holidays: vec![], mask: vec![4, 5, 6] },
                        ],
                        settle: if r.chance(0.5) { Some(vec![CalSpec { holidays: vec![], mask: vec![0, 1, 2, 3, 4, 5, 6] }]) } else { None },
                    })
                };
                for settlement in [false, true] {
                    if !sink(Plan::Call(CallSpec::DateSweep {
                        cal: closed.clone(),
                        date,
                        func: DateFn::AddBusDays,
                        modifier: 0,
                        settlement,
                        roll: RollSpec::Unspecified,
                        counts: all_i8(),
                        makeup: vec![],
                        opens_on: None,
                    })) {
                        return;
                    }
                }
                return;
            }
            let never_settles = !giant.get() && r.chance(0.04);
            let cal = if never_settles {
                CalChoice::Union(UnionSpec {
                    members: vec![CalSpec { holidays: vec![], mask: vec![5, 6] }],
                    settle: Some(vec![CalSpec { holidays: vec![], mask: vec![0, 1, 2, 3, 4] }]),
                })
            } else {
                cal
            };
            let counts = if func == DateFn::Roll {
                vec![0]
            } else if giant.get() {
                // each call walks the whole closure: a spread of counts, not all 256
                vec![-128, -127, -65, -2, -1, 0, 1, 2, 64, 126, 127]
            } else {
                all_i8()
            };
            // a user's own calendar type with make-up working days around (and on) the date
            let makeup: Vec<i64> = if r.chance(0.15) {
                let mut v: Vec<i64> = (0..r.usize_in(1, 4))
                    .map(|_| (date_day + r.i64_in(-10, 10)).max(0) * 86_400)
                    .collect();
                if r.chance(0.6) {
                    v.push(date);
                }
                v
            } else {
                vec![]
            };
            // adjustment at the very ends of the representable dates, in the direction that
            // has an answer (forward rules at the earliest days, backward rules at the latest)
            let (date, allowed): (i64, Option<[u8; 3]>) =
                if func == DateFn::Roll && !giant.get() && r.chance(0.05) {
                    let epoch = chrono::NaiveDate::from_ymd_opt(1970, 1, 1).unwrap();
                    let lo = (chrono::NaiveDate::MIN - epoch).num_days();
                    let hi = (chrono::NaiveDate::MAX - epoch).num_days();
                    if r.chance(0.5) {
                        ((lo + r.i64_in(0, 2)) * 86_400, Some([0, 1, 2]))
                    } else {
                        ((hi - r.i64_in(0, 2)) * 86_400, Some([0, 3, 4]))
                    }
                } else {
                    (date, None)
                };
            let opens_on: Option<i64> = if !giant.get()
                && matches!(func, DateFn::Roll | DateFn::AddDays)
                && r.chance(0.08)
            {
                Some((date_day + r.i64_in(-3, 25)) * 86_400)
            } else {
                None
            };
            for modifier in 0..5u8 {
                if func != DateFn::AddDays && func != DateFn::Roll && modifier > 0 {
                    break;
                }
                if giant.get() && modifier > 0 && modifier != (unit / 10 % 4) as u8 + 1 {
                    continue;
                }
                if let Some(a) = &allowed {
                    if !a.contains(&modifier) {
                        continue;
                    }
                }
                for settlement in [false, true] {
                    if never_settles && settlement {
                        continue;
                    }
                    if !sink(Plan::Call(CallSpec::DateSweep {
                        cal: cal.clone(),
                        date,
                        func: func.clone(),
                        modifier,
                        settlement,
                        roll: RollSpec::Unspecified,
                        counts: counts.clone(),
                        makeup: makeup.clone(),
                        opens_on,
                    })) {
                        return;
                    }
                }
            }
        }
        4 | 5 => {
            // month arithmetic: offsets landing in 1970..2200, every roll kind and day 1..31
            // the START is any datetime (only the landing month is confined to 1970..2200)
            let day = match r.below(20) {
                0 => r.i64_in(ymd_day(-9999, 1, 1), ymd_day(0, 12, 31)),
                1 => r.i64_in(ymd_day(1, 1, 1), ymd_day(1969, 12, 31)),
                2 => r.i64_in(ymd_day(2201, 1, 1), ymd_day(9999, 12, 31)),
                3 => *r.pick(&[
                    ymd_day(-262_000, 3, 15),
                    ymd_day(262_000, 3, 15),
                    ymd_day(-1, 12, 31),
                    ymd_day(0, 1, 1),
                    ymd_day(0, 2, 29),
                    ymd_day(-4, 2, 29),
                    ymd_day(-43, 3, 15),
                    ymd_day(10_000, 1, 31),
                ]),
                // a leap day (whole-year offsets from it land on 28 February or 29 February)
                4 => ymd_day(*r.pick(&[1972, 1996, 2000, 2004, 2024, 2096, 2104, 2196, 1600, 2400, 4, 40_000]), 2, 29),
                _ => r.i64_in(0, ymd_day(2200, 12, 31)),
            };
            let cal = gen_cal_choice(r, day.clamp(0, ymd_day(2200, 12, 31)));
            let date = day * 86_400;
            let nd = ts_to_ndt(date);
            let (year, month) = {
                use chrono::Datelike;
                (nd.year(), nd.month() as i32)
            };
            let total = year * 12 + (month - 1);
            let lo = 1970 * 12 - total;
            let hi = 2200 * 12 + 11 - total;
            let mut counts: Vec<i32> = (-40..=40).filter(|m| *m >= lo && *m <= hi).collect();
            // whole numbers of years, of either sign, landing anywhere in the range
            for _ in 0..12 {
                let y = r.i64_in(1970, 2200) as i32;
                counts.push((y - year) * 12);
            }
            for _ in 0..40 {
                counts.push(r.i64_in(lo as i64, hi as i64) as i32);
            }
            counts.push(lo);
            counts.push(hi);
            // landing months where day capping depends on the leap rule, and the range ends
            for y in [1970, 1972, 2000, 2096, 2100, 2104, 2196, 2200] {
                counts.push(y * 12 + 1 - total); // February of y
            }
            for y in [1970, 2100, 2200] {
                for m in [0, 2, 11] {
                    counts.push(y * 12 + m - total);
                }
            }
            let mut rolls = vec![RollSpec::Unspecified, RollSpec::EoM, RollSpec::SoM, RollSpec::Imm];
            if which == 4 {
                for d in 1..=31u32 {
                    rolls.push(RollSpec::Int(d));
                }
            } else {
                rolls.push(RollSpec::Int(r.i64_in(1, 31) as u32));
            }
            if giant.get() {
                // each call walks the whole closure
                counts.truncate(6);
                counts.push(lo);
                counts.push(hi);
                rolls.truncate(5);
            }
            for roll in rolls {
                let modifier = r.below(5) as u8;
                let settlement = r.chance(0.5);
                if !sink(Plan::Call(CallSpec::DateSweep {
                    cal: cal.clone(),
                    date,
                    func: DateFn::AddMonths,
                    modifier,
                    settlement,
                    roll,
                    counts: counts.clone(),
                    makeup: vec![],
                    opens_on: None,
                })) {
                    return;
                }
            }
        }
        6 => {
            // refusals (and acceptances) whose variable names are enormous
            if (unit / 10) % 3 == 0 {
                for len in [65_535usize, 65_536, 70_000, 300_000] {
                    let long = "v".repeat(len);
                    let longu = "é".repeat(len / 2);
                    for vars in [vec![long.clone()], vec!["a".to_string(), long.clone()], vec![longu.clone(), long.clone()]] {
                        for nd in [0usize, vars.len(), vars.len() + 1] {
                            let dual: Vec<Fx> = (0..nd).map(|i| Fx::new(1.0 + i as f64)).collect();
                            sink(Plan::Call(CallSpec::DualNew { v: Fx::new(1.0), vars: vars.clone(), dual: dual.clone() }));
                            sink(Plan::Call(CallSpec::Dual2New { v: Fx::new(1.0), vars: vars.clone(), dual: dual.clone(), dual2: vec![Fx::new(0.5)] }));
                        }
                    }
                }
            }
            // number constructors with every combination of small lengths
            let pool = ["x", "y", "z", "x", ""];
            for nv in 0..=4usize {
                for nd in 0..=5usize {
                    let vars: Vec<String> =
                        (0..nv).map(|i| pool[(i + (unit / 10) as usize) % 5].to_string()).collect();
                    let uniq = {
                        let mut u = vars.clone();
                        u.sort();
                        u.dedup();
                        u.len()
                    };
                    let dual: Vec<Fx> = (0..nd).map(|_| Fx::new(short_values(r))).collect();
                    sink(Plan::Call(CallSpec::DualNew {
                        v: Fx::new(short_values(r)),
                        vars: vars.clone(),
                        dual: dual.clone(),
                    }));
                    for nd2 in [0usize, 1, nv * nv, nv * nv + 1, (nv * nv).saturating_sub(1), 2 * nv, uniq * uniq, nv * uniq] {
                        sink(Plan::Call(CallSpec::Dual2New {
                            v: Fx::new(short_values(r)),
                            vars: vars.clone(),
                            dual: dual.clone(),
                            dual2: (0..nd2).map(|_| Fx::new(short_values(r))).collect(),
                        }));
                    }
                    let base_vars: Vec<String> =
                        (0..r.usize_in(0, 3)).map(|i| pool[i].to_string()).collect();
                    for second_order in [false, true] {
                        sink(Plan::Call(CallSpec::DualNewFrom {
                            base_vars: base_vars.clone(),
                            v: Fx::new(1.5),
                            vars: vars.clone(),
                            dual: dual.clone(),
                            second_order,
                        }));
                    }
                }
            }
        }
        7 => {
            // currency, pair and named-calendar strings
            // first, in the same process: documents that hold currency codes in another
            // spelling than the constructors would give them (whatever the loader makes of
            // such a document must not change what the constructors return afterwards)
            if let Ok(doc) = FXRate::try_new("usd", "nok", Number::F64(1.5), None)
                .and_then(|q| FXRates::try_new(vec![q], None))
                .map_err(|e| e.to_string())
                .and_then(|m| m.to_json().map_err(|e| e.to_string()))
            {
                for spelled in ["USD", "UsD", "Usd"] {
                    sink(Plan::Load {
                        loader: "FXRates".into(),
                        text: doc.replace("\"usd\"", &format!("\"{}\"", spelled)),
                        fault: "VALUE_ALTER".into(),
                        origin: format!("a one-quote market usdnok with usd spelled {}", spelled),
                    });
                }
            }
            for a in ODD_CCY {
                sink(Plan::Call(CallSpec::Ccy(a.to_string())));
                for b in ODD_CCY.iter() {
                    sink(Plan::Call(CallSpec::FxPair(a.to_string(), b.to_string())));
                }
                for b in ODD_CCY.iter().take(8) {
                    sink(Plan::Call(CallSpec::FxRate(b.to_string(), a.to_string())));
                }
            }
            let parts = [
                "tgt",
                "LDN",
                "",
                "xyz",
                "nyc,fed",
                "all,",
                ",bus",
                " ",
                "stk , osl",
                "é",
                "東京証券取引所の休日カレンダーの名前です",
                "a€bb€€ccc€€€dddd€€€€eeeee€€€€€ffffff",
                // code points whose lower-case form has another byte length
                "İ",
                "st\u{212A}",
                "\u{212A}",
                "Ⱥ",
                "ẞ",
                "tgt,İ",
                "zzzzzzzzzzzzzzzzzzzzzzzzzzzzzzzzzzzzzzzzzzzzzzzzzzzzzzzzzzzzzzzzzzzzzzzz",
                "\u{1F600}\u{1F600}\u{1F600}\u{1F600}\u{1F600}\u{1F600}\u{1F600}\u{1F600}x\u{1F600}\u{1F600}",
            ];
            // every byte offset of a long multi-byte name gets a chance to straddle a cut
            for pad in 0..8usize {
                let name = format!("{}{}", "x".repeat(pad), "東京証券取引所の休日カレンダーの名前です€€");
                sink(Plan::Call(CallSpec::NamedCal(name.clone())));
                sink(Plan::Call(CallSpec::NamedCal(format!("tgt,ldn|{}", name))));
            }
            for _ in 0..120 {
                let pipes = r.usize_in(0, 3);
                let mut s = String::new();
                for i in 0..=pipes {
                    if i > 0 {
                        s.push('|');
                    }
                    let k = r.usize_in(0, 2);
                    let v: Vec<&str> = (0..k).map(|_| *r.pick(&parts)).collect();
                    s.push_str(&v.join(","));
                }
                sink(Plan::Call(CallSpec::NamedCal(s)));
            }
            // very long lists (thousands of names on one side of the pipe), good and with a
            // bad last name
            if (unit / 10) % 4 == 0 {
                for n in [2_000usize, 20_000, 60_000] {
                    let good = vec!["bus"; n].join(",");
                    sink(Plan::Call(CallSpec::NamedCal(good.clone())));
                    sink(Plan::Call(CallSpec::NamedCal(format!("{},zzz", good))));
                    sink(Plan::Call(CallSpec::NamedCal(format!("tgt|{}", good))));
                }
            }
            for odd in ["İ|tgt", "\u{212A}|", "st\u{212A}|tgt", "tgt|st\u{212A}", "İİ|İ", "Ⱥ|Ⱥ", "ẞ,tgt|ldn"] {
                sink(Plan::Call(CallSpec::NamedCal(odd.to_string())));
            }
            for n in CAL_NAMES {
                sink(Plan::Call(CallSpec::NamedCal(n.to_string())));
                sink(Plan::Call(CallSpec::NamedCal(format!("{}|{}", n, n.to_uppercase()))));
            }
        }
        8 => {
            // quote sets: valid, over-/under-specified, cyclic, duplicated, inconsistent dates
            for _ in 0..40 {
                let base = c10::generate(r, Tier::Quick);
                let mut quotes: Vec<QuoteArg> = base
                    .setup
                    .quotes
                    .iter()
                    .map(|q| QuoteArg {
                        lhs: q.lhs.clone(),
                        rhs: q.rhs.clone(),
                        num: q.num.clone(),
                        settle: q.settle,
                    })
                    .collect();
                let mut b = base.setup.base.clone();
                // rates that are not ordinary positive levels: zero of either sign, negative,
                // infinite, NaN, and dual numbers that are identically zero / carry no variable
                if r.chance(0.2) && !quotes.is_empty() {
                    let i = r.below(quotes.len() as u64) as usize;
                    quotes[i].num = match r.below(10) {
                        0 => Num::F(Fx::new(0.0)),
                        1 => Num::F(Fx::new(-0.0)),
                        2 => Num::F(Fx::new(-1.5)),
                        3 => Num::F(Fx::new(f64::INFINITY)),
                        4 => Num::F(Fx::new(f64::NAN)),
                        5 => Num::D { v: Fx::new(0.0), g: vec![] },
                        6 => Num::D2 { v: Fx::new(0.0), g: vec![], h: vec![] },
                        7 => Num::D { v: Fx::new(0.0), g: vec![("x".into(), Fx::new(0.0))] },
                        8 => Num::D2 { v: Fx::new(1.25), g: vec![], h: vec![] },
                        _ => Num::D { v: Fx::new(f64::MIN_POSITIVE / 8.0), g: vec![("x".into(), Fx::new(1.0))] },
                    };
                }
                match r.below(9) {
                    0 => {}
                    1 => {
                        quotes.pop();
                    }
                    2 => {
                        // duplicate pair (same or another kind of number), optionally with a
                        // disconnected extra pair so that the counts still match
                        let mut q = quotes[0].clone();
                        if r.chance(0.6) {
                            let k = r.below(3) as u8;
                            q.num = gen_num(r, k, q.num.value(), 2, "d_");
                        }
                        if r.chance(0.5) && quotes.len() >= 2 {
                            let last = quotes.len() - 1;
                            quotes[last].lhs = "xau".into();
                            quotes[last].rhs = "xag".into();
                        }
                        let pos = r.usize_in(0, quotes.len());
                        quotes.insert(pos, q);
                    }
                    3 => {
                        // reversed duplicate
                        let mut q = quotes[0].clone();
                        std::mem::swap(&mut q.lhs, &mut q.rhs);
                        quotes.push(q);
                    }
                    4 => {
                        // cycle: replace one quote by a pair closing a loop elsewhere
                        if quotes.len() >= 3 {
                            let a = quotes[0].lhs.clone();
                            let c = quotes[quotes.len() - 1].rhs.clone();
                            if a != c {
                                quotes[1].lhs = a;
                                quotes[1].rhs = c;
                            }
                        }
                    }
                    5 => {
                        // inconsistent settlement
                        let n = quotes.len();
                        quotes[n - 1].settle = match quotes[n - 1].settle {
                            Some(d) => {
                                if r.chance(0.5) {
                                    // (the neighbouring day, staying inside chrono's range)
                                    Some(if d > 0 { d - 1 } else { d + 1 })
                                } else {
                                    None
                                }
                            }
                            None => Some(12000),
                        };
                    }
                    6 => {
                        // a disconnected extra pair (under-specified)
                        quotes.push(QuoteArg {
                            lhs: "xau".into(),
                            rhs: "xag".into(),
                            num: Num::F(Fx::new(2.0)),
                            settle: quotes[0].settle,
                        });
                    }
                    7 => {
                        b = Some("zzz".into()); // base outside the quotes
                    }
                    _ => {
                        quotes.clear();
                    }
                }
                sink(Plan::Call(CallSpec::FxRatesNew { quotes, base: b }));
            }
        }
        _ => {
            // csolve with matched and mismatched inputs
            // degenerate but legal splines: no or one coefficient
            for (k, t) in [
                (2usize, vec![0.0, 1.0]),
                (3, vec![0.0, 0.0, 1.0]),
                (1, vec![0.0, 1.0]),
                (2, vec![0.0, 0.5, 1.0]),
                (4, vec![1.0, 1.0, 2.0, 2.0]),
            ] {
                for kind in 0..3u8 {
                    let spec = SplineSpec {
                        kind,
                        k,
                        t: t.iter().map(|x| Fx::new(*x)).collect(),
                        preset: None,
                        preset_share: false,
                    };
                    let n = t.len() - k;
                    for ntau in [0usize, n, n + 1, n + 2] {
                        for allow_lsq in [false, true] {
                            for (left_n, right_n) in [(0usize, 0usize), (1, 0), (0, 1), (2, 2), (k + 1, 0)] {
                                sink(Plan::Call(CallSpec::Csolve {
                                    spec: spec.clone(),
                                    tau: (0..ntau).map(|i| Fx::new(t[0] + 0.1 * i as f64)).collect(),
                                    y: (0..ntau).map(|_| Num::F(Fx::new(1.5))).collect(),
                                    left_n,
                                    right_n,
                                    allow_lsq,
                                }));
                            }
                        }
                    }
                }
            }
            // high orders (the order is a plain usize with no documented limit)
            for _ in 0..2 {
                // evaluation cost doubles with every order: the highest orders are rarer
                let k = if r.chance(0.15) { r.usize_in(16, 18) } else { r.usize_in(6, 12) };
                let mut t = vec![0.0; k];
                let mut x = 0.0;
                for _ in 0..r.usize_in(0, 2) {
                    x += 1.0;
                    t.push(x);
                }
                x += 1.0;
                t.extend(std::iter::repeat(x).take(k));
                let spec = SplineSpec {
                    kind: r.below(3) as u8,
                    k,
                    t: t.into_iter().map(Fx::new).collect(),
                    preset: None,
                    preset_share: false,
                };
                let good = gen_solve(r, &spec, false);
                sink(Plan::Call(CallSpec::Csolve {
                    spec: spec.clone(),
                    tau: good.tau.clone(),
                    y: good.y.clone(),
                    left_n: 0,
                    right_n: 0,
                    allow_lsq: false,
                }));
            }
            // histories of solves on one object: exact, least-squares with extra sites appended
            // (so that one site vector is a prefix of another), refused, repeated
            for _ in 0..20 {
                let spec = gen_spline(r);
                let good = gen_solve(r, &spec, false);
                let tt: Vec<f64> = spec.t.iter().map(|x| x.get()).collect();
                let (a, b) = (tt[0], tt[tt.len() - 1]);
                let mut long = good.clone();
                for _ in 0..r.usize_in(1, 3) {
                    long.tau.push(Fx::new(a + (b - a) * r.unit()));
                    long.y.push(good.y[0].clone());
                }
                long.allow_lsq = true;
                let mut short = good.clone();
                if short.tau.len() > 1 {
                    short.tau.pop();
                    short.y.pop();
                }
                let bad = gen_solve(r, &spec, true);
                let pool = [good.clone(), long.clone(), short.clone(), bad.clone(), good.clone()];
                let m = r.usize_in(2, 4);
                let calls: Vec<SolveSpec> = (0..m).map(|_| r.pick(&pool).clone()).collect();
                sink(Plan::Call(CallSpec::CsolveSeq {
                    spec: spec.clone(),
                    calls,
                    preset_c: None,
                }));
                // a spline born with a coefficient vector (right or wrong length), then solved
                let nn = tt.len() - spec.k;
                for m in [nn, nn + 2, 1, 0] {
                    sink(Plan::Call(CallSpec::CsolveSeq {
                        spec: spec.clone(),
                        calls: vec![good.clone(), bad.clone(), good.clone()],
                        preset_c: Some(m),
                    }));
                }
                // the two orders of (long least-squares, exact prefix) explicitly
                sink(Plan::Call(CallSpec::CsolveSeq {
                    spec: spec.clone(),
                    calls: vec![long.clone(), good.clone()],
                    preset_c: None,
                }));
                sink(Plan::Call(CallSpec::CsolveSeq {
                    spec: spec.clone(),
                    calls: vec![good.clone(), long.clone(), good.clone()],
                    preset_c: None,
                }));
            }
            for _ in 0..30 {
                let spec = gen_spline(r);
                let good = gen_solve(r, &spec, false);
                let n = spec.t.len() - spec.k;
                let mut tau = good.tau.clone();
                let mut y = good.y.clone();
                match r.below(8) {
                    0 => {}
                    1 => {
                        tau.pop();
                    }
                    2 => {
                        y.pop();
                    }
                    3 => {
                        tau.clear();
                        y.clear();
                    }
                    4 => {
                        let l = tau[tau.len() - 1];
                        tau.push(l);
                        y.push(y[0].clone());
                    }
                    5 => {
                        tau.reverse();
                    }
                    6 => {
                        for t in tau.iter_mut() {
                            *t = Fx::new(t.get() + 1000.0);
                        }
                    }
                    _ => {
                        tau.truncate(1);
                        y.truncate(1);
                    }
                }
                sink(Plan::Call(CallSpec::Csolve {
                    spec: spec.clone(),
                    tau,
                    y,
                    left_n: r.usize_in(0, spec.k + 1),
                    right_n: r.usize_in(0, spec.k + 1),
                    allow_lsq: r.chance(0.4),
                }));
                // least squares on site sets that make the normal equations singular exactly:
                // the distinct knots each repeated, all sites equal, the first knots only
                {
                    let tt: Vec<f64> = spec.t.iter().map(|x| x.get()).collect();
                    let mut knots = tt.clone();
                    knots.dedup();
                    let y0 = good.y.first().cloned().unwrap_or(Num::F(Fx::new(1.5)));
                    let mut patterns: Vec<Vec<f64>> = Vec::new();
                    patterns.push(knots.iter().flat_map(|x| [*x, *x]).collect());
                    patterns.push(knots.iter().flat_map(|x| [*x, *x, *x]).collect());
                    patterns.push(vec![tt[0]; n + 2]);
                    patterns.push(knots.iter().take((n / 2).max(1)).flat_map(|x| vec![*x; 4]).collect());
                    for sites in patterns {
                        for (left_n, right_n) in [(0usize, 0usize), (1, 1)] {
                            sink(Plan::Call(CallSpec::Csolve {
                                spec: spec.clone(),
                                y: vec![y0.clone(); sites.len()],
                                tau: sites.iter().map(|x| Fx::new(*x)).collect(),
                                left_n,
                                right_n,
                                allow_lsq: true,
                            }));
                        }
                    }
                }
                // every combination of site-count and value-count around n and around each
                // other, with and without least squares
                if n <= 8 {
                    let tt: Vec<f64> = spec.t.iter().map(|x| x.get()).collect();
                    let (a, b) = (tt[0], tt[tt.len() - 1]);
                    let mut sites: Vec<Fx> = good.tau.clone();
                    while sites.len() < n + 4 {
                        sites.push(Fx::new(a + (b - a) * r.unit()));
                    }
                    let mut vals: Vec<Num> = good.y.clone();
                    while vals.len() < n + 6 {
                        vals.push(vals.first().cloned().unwrap_or(Num::F(Fx::new(1.5))));
                    }
                    let mut ntaus = vec![0usize, 1, n.saturating_sub(1), n, n + 1, n + 3];
                    ntaus.sort();
                    ntaus.dedup();
                    for ntau in ntaus {
                        let mut nys = vec![0usize, ntau.saturating_sub(1), ntau, ntau + 1, ntau + 2, n, n + 1];
                        nys.sort();
                        nys.dedup();
                        for ny in nys {
                            for allow_lsq in [false, true] {
                                sink(Plan::Call(CallSpec::Csolve {
                                    spec: spec.clone(),
                                    tau: sites[..ntau].to_vec(),
                                    y: vals[..ny].to_vec(),
                                    left_n: 0,
                                    right_n: 0,
                                    allow_lsq,
                                }));
                            }
                        }
                    }
                }
            }
        }
    }
}

// ------------------------------------------------------------------ shrinking

pub fn shrink(plan: &Plan) -> Vec<Plan> {
    let mut out = Vec::new();
    match plan {
        Plan::Load {
            loader,
            text,
            fault,
            origin,
        } => {
            // structural shrinking of the faulty text: delete members / elements while the
            // same signature persists
            if let Ok(tree) = jsonf::parse(text) {
                for p in jsonf::paths(&tree) {
                    match jsonf::get(&tree, &p) {
                        Some(jsonf::J::Obj(m)) => {
                            for i in 0..m.len() {
                                let mut d = tree.clone();
                                if let Some(jsonf::J::Obj(mm)) = jsonf::get_mut(&mut d, &p) {
                                    mm.remove(i);
                                }
                                out.push(jsonf::render(&d));
                            }
                        }
                        Some(jsonf::J::Arr(a)) => {
                            for i in 0..a.len() {
                                let mut d = tree.clone();
                                if let Some(jsonf::J::Arr(aa)) = jsonf::get_mut(&mut d, &p) {
                                    aa.remove(i);
                                }
                                out.push(jsonf::render(&d));
                            }
                        }
                        _ => {}
                    }
                }
            } else {
                // unparseable text: chop from the end and from the middle
                let n = text.len();
                for cut in [n / 2, n / 4, 1] {
                    if cut > 0 && cut < n && text.is_char_boundary(n - cut) {
                        out.push(text[..n - cut].to_string());
                    }
                }
            }
            return out
                .into_iter()
                .filter(|t| t.len() < text.len())
                .map(|t| Plan::Load {
                    loader: loader.clone(),
                    text: t,
                    fault: fault.clone(),
                    origin: format!("{} (then minimised)", origin.trim_end_matches(" (then minimised)")),
                })
                .collect();
        }
        Plan::Call(c) => {
            let mut cs: Vec<CallSpec> = Vec::new();
            match c {
                CallSpec::DateSweep {
                    cal,
                    date,
                    func,
                    modifier,
                    settlement,
                    roll,
                    counts,
                    makeup,
                    opens_on,
                } => {
                    if !makeup.is_empty() {
                        cs.push(CallSpec::DateSweep {
                            cal: cal.clone(),
                            date: *date,
                            func: func.clone(),
                            modifier: *modifier,
                            settlement: *settlement,
                            roll: roll.clone(),
                            counts: counts.clone(),
                            makeup: vec![],
                            opens_on: *opens_on,
                        });
                        if makeup.len() > 1 {
                            for i in 0..makeup.len() {
                                let mut mk = makeup.clone();
                                mk.remove(i);
                                cs.push(CallSpec::DateSweep {
                                    cal: cal.clone(),
                                    date: *date,
                                    func: func.clone(),
                                    modifier: *modifier,
                                    settlement: *settlement,
                                    roll: roll.clone(),
                                    counts: counts.clone(),
                                    makeup: mk,
                            opens_on: *opens_on,
                                });
                            }
                        }
                    }
                    if counts.len() > 1 {
                        let h = counts.len() / 2;
                        for part in [&counts[..h], &counts[h..]] {
                            cs.push(CallSpec::DateSweep {
                                cal: cal.clone(),
                                date: *date,
                                func: func.clone(),
                                modifier: *modifier,
                                settlement: *settlement,
                                roll: roll.clone(),
                                counts: part.to_vec(),
                                makeup: makeup.clone(),
                            opens_on: *opens_on,
                            });
                        }
                    }
                    if *cal != CalChoice::Named("bus".into()) {
                        cs.push(CallSpec::DateSweep {
                            cal: CalChoice::Named("bus".into()),
                            date: *date,
                            func: func.clone(),
                            modifier: *modifier,
                            settlement: *settlement,
                            roll: roll.clone(),
                            counts: counts.clone(),
                            makeup: makeup.clone(),
                            opens_on: *opens_on,
                        });
                    }
                    if *settlement {
                        cs.push(CallSpec::DateSweep {
                            cal: cal.clone(),
                            date: *date,
                            func: func.clone(),
                            modifier: *modifier,
                            settlement: false,
                            roll: roll.clone(),
                            counts: counts.clone(),
                            makeup: makeup.clone(),
                            opens_on: *opens_on,
                        });
                    }
                    if *modifier != 0 {
                        cs.push(CallSpec::DateSweep {
                            cal: cal.clone(),
                            date: *date,
                            func: func.clone(),
                            modifier: 0,
                            settlement: *settlement,
                            roll: roll.clone(),
                            counts: counts.clone(),
                            makeup: makeup.clone(),
                            opens_on: *opens_on,
                        });
                    }
                }
                CallSpec::FxRatesNew { quotes, base } => {
                    for i in 0..quotes.len() {
                        let mut q = quotes.clone();
                        q.remove(i);
                        cs.push(CallSpec::FxRatesNew {
                            quotes: q,
                            base: base.clone(),
                        });
                    }
                    if base.is_some() {
                        cs.push(CallSpec::FxRatesNew {
                            quotes: quotes.clone(),
                            base: None,
                        });
                    }
                    for i in 0..quotes.len() {
                        if quotes[i].num.kind() != 0 {
                            let mut q = quotes.clone();
                            q[i].num = Num::F(Fx::new(quotes[i].num.value()));
                            cs.push(CallSpec::FxRatesNew {
                                quotes: q,
                                base: base.clone(),
                            });
                        }
                    }
                }
                CallSpec::CsolveSeq {
                    spec,
                    calls,
                    preset_c,
                } => {
                    for i in 0..calls.len() {
                        if calls.len() > 1 {
                            let mut c2 = calls.clone();
                            c2.remove(i);
                            cs.push(CallSpec::CsolveSeq {
                                spec: spec.clone(),
                                calls: c2,
                                preset_c: *preset_c,
                            });
                        }
                    }
                    if spec.kind != 0 {
                        let mut s2 = spec.clone();
                        s2.kind = 0;
                        cs.push(CallSpec::CsolveSeq {
                            spec: s2,
                            calls: calls.clone(),
                            preset_c: *preset_c,
                        });
                    }
                    if preset_c.is_some() {
                        cs.push(CallSpec::CsolveSeq {
                            spec: spec.clone(),
                            calls: calls.clone(),
                            preset_c: None,
                        });
                    }
                }
                CallSpec::Csolve {
                    spec,
                    tau,
                    y,
                    left_n,
                    right_n,
                    allow_lsq,
                } => {
                    if spec.kind != 0 {
                        let mut s = spec.clone();
                        s.kind = 0;
                        cs.push(CallSpec::Csolve {
                            spec: s,
                            tau: tau.clone(),
                            y: y.clone(),
                            left_n: *left_n,
                            right_n: *right_n,
                            allow_lsq: *allow_lsq,
                        });
                    }
                    if *left_n != 0 || *right_n != 0 {
                        cs.push(CallSpec::Csolve {
                            spec: spec.clone(),
                            tau: tau.clone(),
                            y: y.clone(),
                            left_n: 0,
                            right_n: 0,
                            allow_lsq: *allow_lsq,
                        });
                    }
                }
                _ => {}
            }
            cs.into_iter().map(Plan::Call).collect()
        }
    }
}

pub struct C20;

impl Scenario for C20 {
    type Plan = Plan;
    const ID: &'static str = "C20";
    const BARE_PASS: bool = true;
    const LEVEL: &'static str = "fault_enumeration";

    fn units(tier: Tier) -> u64 {
        doc_units(tier) + call_units(tier)
    }
    fn unit(seed: u64, tier: Tier, unit: u64, sink: &mut dyn FnMut(Plan) -> bool) {
        // document units (heavy: tens of thousands of faulted loads each) are spread evenly
        // over the unit range, hence over the worker processes
        let nd = doc_units(tier);
        let stride = (Self::units(tier) / nd.max(1)).max(1);
        if unit % stride == 0 && unit / stride < nd {
            emit_doc_faults(seed, tier, unit / stride, sink);
        } else {
            let docs_before = nd.min((unit + stride - 1) / stride);
            emit_calls(seed, tier, unit - docs_before, sink);
        }
    }
    fn execute(plan: &Plan, obs: &mut Obs) -> Result<(), Fail> {
        if let Plan::Load { loader, .. } = plan {
            if loader == "harness-doc-generation-failed" {
                return Err(Fail::Harness(HarnessError(
                    "document generation failed".into(),
                )));
            }
        }
        execute(plan, obs)
    }
    fn shrink(plan: &Plan) -> Vec<Plan> {
        shrink(plan)
    }
    fn nontrivial(plan: &Plan) -> bool {
        match plan {
            Plan::Load { fault, .. } => fault != "NONE",
            Plan::Call(_) => true,
        }
    }
    fn label(plan: &Plan) -> String {
        match plan {
            Plan::Load { loader, .. } => format!("load:{}", loader),
            Plan::Call(c) => match c {
                CallSpec::DualNew { .. } => "Dual::try_new".into(),
                CallSpec::Dual2New { .. } => "Dual2::try_new".into(),
                CallSpec::DualNewFrom { .. } => "try_new_from".into(),
                CallSpec::Ccy(_) => "Ccy::try_new".into(),
                CallSpec::FxPair(..) => "FXPair::try_new".into(),
                CallSpec::FxRate(..) => "FXRate::try_new".into(),
                CallSpec::FxRatesNew { .. } => "FXRates::try_new".into(),
                CallSpec::NamedCal(_) => "NamedCal::try_new".into(),
                CallSpec::DateSweep { func, .. } => format!("DateRoll::{:?}", func),
                CallSpec::Csolve { .. } => "PPSpline::csolve".into(),
                CallSpec::CsolveSeq { .. } => "PPSpline::csolve(sequence)".into(),
            },
        }
    }
    fn rule() -> String {
        "Fault enumeration on durable JSON: for each seeded document (two small and two medium objects of each of 15 types in quick; 300 documents incl. large ones in thorough; saved through its direct loader, through the tagged container, and for calendars inside CalType) EVERY truncation offset, EVERY member deletion and duplication at every depth, EVERY scalar x every alternative value, every array grow/shrink/reverse, every enum-tag swap, and the misdirected read by every other loader are executed; single-byte damage and torn splices of two versions are sampled. Each evaluation = one load of one faulty text, checked for: no unwind, and if accepted, the type's shape invariants and a non-unwinding query suite. In addition (generation only): constructor and date-arithmetic calls over the documented argument ranges under the same no-unwind monitor. Distinct = distinct plan digest; non-trivial = the text differs from a valid document, or the evaluation is a generated call.".into()
    }
    fn assumptions() -> Vec<String> {
        vec![
            "shape invariants are the dimensional relations that every value built through the public constructors satisfies (DESIGN 4 C20); Ccy case/length after load, >= 2 curve nodes and sorted node keys are NOT demanded".into(),
            "damaged text is always valid UTF-8 (invalid UTF-8 cannot reach a &str API)".into(),
            "calendar queries are only issued against calendars with at least one working weekday; month offsets LAND in 1970-2200 (the start date is any datetime chrono can hold); a user implementation of the public DateRoll trait that delegates the three required methods and overrides is_bus_day consistently (is_non_bus_day stays its negation) counts as a calendar".into(),
            "by-contract refusals (Dual with Dual2 on Number, NullInterpolator look-ups) are not exercised; splines have order k >= 1 (PPSpline::new(0, ..) and a document with k = 0 are accepted, and evaluating or solving such an object panics: order 0 is outside the definition of a B-spline, whose base case is order 1 - recorded as an observation, not exercised)".into(),
            "constructors, date arithmetic and csolve are pure functions: for them this check is seeded input generation plus the no-unwind monitor, not fault injection".into(),
        ]
    }
    fn components() -> serde_json::Value {
        serde_json::json!({
            "real": ["serde_json deserialisation of every rateslib type incl. the tagged container (verif-hooks) and the rebuild-on-load data models", "Dual/Dual2/Ccy/FXPair/FXRate/FXRates/NamedCal constructors", "DateRoll::{add_days, add_bus_days, lag, add_months, roll} on Cal/UnionCal/NamedCal and on a user implementation of the trait (provided methods are the library's)", "PPSpline::csolve"],
            "stub": ["the store is an in-memory map of byte strings with an older and a newer version per object; faults are applied to the bytes it hands back", "Python layer not executed (embedded interpreter only so that PyErr can be formatted)"],
            "model": ["shape invariants per type; no-unwind monitor (catch_unwind + panic hook) on every call; worker-process death = abort"]
        })
    }
    fn exhaustive(_tier: Tier) -> bool {
        false
    }
    fn extra_coverage(tier: Tier) -> serde_json::Value {
        serde_json::json!({
            "documents": doc_units(tier),
            "fault_subspaces_enumerated_completely_per_document": ["TRUNC (every byte offset)", "FIELD_DEL", "FIELD_DUP", "VALUE_ALTER (every scalar x every alternative, arrays, enum tags)", "MISDIRECT (every other loader)", "coordinated degenerate fields (every subset of the fields at depth 1..3 when there are at most 10, else sampled)"],
            "multiple_faults": "two or three independent random structured faults in sequence, sampled (120 per document variant in quick, 800 in thorough)",
            "fault_subspaces_sampled": match tier { Tier::Quick => serde_json::json!(["BYTE (150 per document variant)", "SPLICE (40 offsets per document variant)"]), Tier::Thorough => serde_json::json!(["BYTE for documents longer than 400 bytes (600 per document variant); complete (every position x 34 replacements) for shorter ones"]) },
            "state_abstraction": "(loader, fault kind, outcome class in {error, accepted-but-altered, ok})",
            "fault_subspaces_enumerated_completely_in_thorough_only": ["SPLICE (every offset)"],
            "generation_only_units": call_units(tier),
            "size_budget": "complete per document up to a work budget of 0.4 (quick) / 4 (thorough) GB of byte x plans per document variant; for larger documents (curves of a hundred Dual2 nodes and the like) TRUNC is taken at every k-th byte (plus the first and last 64 cuts) and the structured faults on every k-th field (each chosen field with its complete set of faults; fields at depth <= 2 always), k and the phase recorded in the origin of a marker plan",
            "exhaustive_note": "exhaustive per document over the listed sub-spaces (within the size budget); the documents themselves are a seeded sample, hence exhaustive=false overall"
        })
    }
}
