//! Adapter between plan-level values and rateslib values (shared by all scenarios).

use crate::core::Fx;
use crate::rng::{Fnv, Rng};
use chrono::{NaiveDate, NaiveDateTime};
use rateslib::dual::{ADOrder, Dual, Dual2, Gradient1, Gradient2, Number, Vars};
use serde::{Deserialize, Serialize};

/// A number in a plan. `h` holds TRUE second derivatives (full symmetric Hessian) as
/// (i, j, value) with i <= j indexing into `g`; rateslib stores half of it.
#[derive(Clone, Debug, Serialize, Deserialize, PartialEq)]
pub enum Num {
    F(Fx),
    D {
        v: Fx,
        g: Vec<(String, Fx)>,
    },
    D2 {
        v: Fx,
        g: Vec<(String, Fx)>,
        h: Vec<(usize, usize, Fx)>,
    },
}

impl Num {
    pub fn value(&self) -> f64 {
        match self {
            Num::F(v) => v.get(),
            Num::D { v, .. } => v.get(),
            Num::D2 { v, .. } => v.get(),
        }
    }
    pub fn kind(&self) -> u8 {
        match self {
            Num::F(_) => 0,
            Num::D { .. } => 1,
            Num::D2 { .. } => 2,
        }
    }
    pub fn with_value(&self, nv: f64) -> Num {
        match self {
            Num::F(_) => Num::F(Fx::new(nv)),
            Num::D { g, .. } => Num::D {
                v: Fx::new(nv),
                g: g.clone(),
            },
            Num::D2 { g, h, .. } => Num::D2 {
                v: Fx::new(nv),
                g: g.clone(),
                h: h.clone(),
            },
        }
    }
    /// Build the rateslib value. Err(text) if rateslib's constructor refuses (never expected
    /// for generated plans: distinct names, matching lengths).
    pub fn to_number(&self) -> Result<Number, String> {
        match self {
            Num::F(v) => Ok(Number::F64(v.get())),
            Num::D { v, g } => Ok(Number::Dual(self.to_dual_parts(v.get(), g)?)),
            Num::D2 { v, g, h } => Ok(Number::Dual2(to_dual2(v.get(), g, h)?)),
        }
    }
    fn to_dual_parts(&self, v: f64, g: &[(String, Fx)]) -> Result<Dual, String> {
        to_dual(v, g)
    }
}

pub fn to_dual(v: f64, g: &[(String, Fx)]) -> Result<Dual, String> {
    let names: Vec<String> = g.iter().map(|(n, _)| n.clone()).collect();
    let coefs: Vec<f64> = g.iter().map(|(_, c)| c.get()).collect();
    if names.is_empty() {
        return Ok(Dual::new(v, vec![]));
    }
    Dual::try_new(v, names, coefs).map_err(|_| "Dual::try_new refused".to_string())
}

pub fn to_dual2(v: f64, g: &[(String, Fx)], h: &[(usize, usize, Fx)]) -> Result<Dual2, String> {
    let names: Vec<String> = g.iter().map(|(n, _)| n.clone()).collect();
    let coefs: Vec<f64> = g.iter().map(|(_, c)| c.get()).collect();
    let n = names.len();
    if n == 0 {
        return Ok(Dual2::new(v, vec![]));
    }
    let mut half = vec![0.0_f64; n * n];
    for (i, j, val) in h {
        if *i < n && *j < n {
            half[i * n + j] = 0.5 * val.get();
            half[j * n + i] = 0.5 * val.get();
        }
    }
    Dual2::try_new(v, names, coefs, half).map_err(|_| "Dual2::try_new refused".to_string())
}

/// What a rateslib number looks like from the outside.
pub struct Seen {
    pub kind: u8,
    pub real: f64,
    pub vars: Vec<String>,
}

pub fn see(n: &Number) -> Seen {
    match n {
        Number::F64(f) => Seen {
            kind: 0,
            real: *f,
            vars: vec![],
        },
        Number::Dual(d) => Seen {
            kind: 1,
            real: d.real(),
            vars: d.vars().iter().cloned().collect(),
        },
        Number::Dual2(d) => Seen {
            kind: 2,
            real: d.real(),
            vars: d.vars().iter().cloned().collect(),
        },
    }
}

/// Gradient by name, in the order asked for (zeros for absent names).
pub fn grad_of(n: &Number, names: &[String]) -> Vec<f64> {
    match n {
        Number::F64(_) => vec![0.0; names.len()],
        Number::Dual(d) => d.gradient1(names.to_vec()).to_vec(),
        Number::Dual2(d) => d.gradient1(names.to_vec()).to_vec(),
    }
}

/// Hessian by name (row-major m x m); None unless second order.
pub fn hess_of(n: &Number, names: &[String]) -> Option<Vec<f64>> {
    match n {
        Number::Dual2(d) => Some(d.gradient2(names.to_vec()).iter().cloned().collect()),
        _ => None,
    }
}

/// Canonical digest of a number: kind, value bits, variables sorted by name with their
/// coefficient bits, Hessian by sorted names. No addresses, no storage order.
pub fn digest_number(h: &mut Fnv, n: &Number) {
    let s = see(n);
    h.u64(s.kind as u64);
    h.f64(s.real);
    let mut names = s.vars.clone();
    names.sort();
    names.dedup();
    for (nm, g) in names.iter().zip(grad_of(n, &names)) {
        h.str(nm);
        h.f64(g);
    }
    if let Some(hs) = hess_of(n, &names) {
        for v in hs {
            h.f64(v);
        }
    }
}

pub fn order_of(k: u8) -> ADOrder {
    match k {
        0 => ADOrder::Zero,
        1 => ADOrder::One,
        _ => ADOrder::Two,
    }
}

pub fn order_num(o: ADOrder) -> u8 {
    match o {
        ADOrder::Zero => 0,
        ADOrder::One => 1,
        ADOrder::Two => 2,
    }
}

/// Day number (days since 1970-01-01) to a midnight datetime.
pub fn day_to_ndt(day: i64) -> NaiveDateTime {
    NaiveDate::from_ymd_opt(1970, 1, 1)
        .unwrap()
        .checked_add_signed(chrono::Duration::days(day))
        .expect("day number out of chrono range")
        .and_hms_opt(0, 0, 0)
        .unwrap()
}

pub fn ts_to_ndt(ts: i64) -> NaiveDateTime {
    chrono::DateTime::from_timestamp(ts, 0)
        .expect("timestamp out of range")
        .naive_utc()
}

pub fn ymd_day(y: i32, m: u32, d: u32) -> i64 {
    (NaiveDate::from_ymd_opt(y, m, d).unwrap() - NaiveDate::from_ymd_opt(1970, 1, 1).unwrap())
        .num_days()
}

// ---------------------------------------------------------------- generation helpers

pub const VAR_POOL: &[&str] = &[
    "x", "y", "z", "u0", "u1", "v_a", "v_b", "rate1", "rate2", "k", "w", "q9",
];

fn signed_coef(rng: &mut Rng) -> f64 {
    // a zero first-order coefficient is legal (and a number may then still carry
    // second-order terms)
    match rng.below(100) {
        0..=5 => return 0.0,
        // the unit sensitivity of a freshly tagged variable
        6..=15 => return 1.0,
        _ => {}
    }
    let m = rng.log_uniform(0.1, 10.0);
    if rng.chance(0.35) {
        -m
    } else {
        m
    }
}

/// Distinct variable names from the pool (optionally prefixed).
pub const ODD_VAR_NAMES: &[&str] = &[
    "", " ", "é", "x\"y", "a b", "back\\slash", "名前", "\u{1F600}", "0", "-1", "null", "a,b", "desk\\",
    "NaN", "Infinity", "X", "x ", " x", "v_A", "ǅ", "tab\there",
];

pub fn gen_names(rng: &mut Rng, count: usize, prefix: &str) -> Vec<String> {
    // variable names are arbitrary strings: mostly plain, sometimes odd, and when more are
    // wanted than the pool holds, numbered
    let odd = rng.chance(0.05);
    let pool: &[&str] = if odd { ODD_VAR_NAMES } else { VAR_POOL };
    let mut idx: Vec<usize> = (0..pool.len()).collect();
    rng.shuffle(&mut idx);
    let mut out: Vec<String> = idx
        .into_iter()
        .take(count)
        .map(|i| {
            if odd {
                pool[i].to_string()
            } else {
                format!("{}{}", prefix, pool[i])
            }
        })
        .collect();
    let mut k = 0;
    while out.len() < count {
        out.push(format!("{}n{}", prefix, k));
        k += 1;
    }
    out
}

/// A dual number spec of the requested kind around value `v` with 1..=maxvars variables.
pub fn gen_num(rng: &mut Rng, kind: u8, v: f64, maxvars: usize, prefix: &str) -> Num {
    match kind {
        0 => Num::F(Fx::new(v)),
        1 => {
            // a dual number may carry no variable at all
            let nv = if rng.chance(0.04) {
                0
            } else {
                rng.usize_in(1, maxvars.max(1))
            };
            let g = gen_names(rng, nv, prefix)
                .into_iter()
                .map(|n| (n, Fx::new(signed_coef(rng))))
                .collect();
            Num::D { v: Fx::new(v), g }
        }
        _ => {
            let nv = if rng.chance(0.04) {
                0
            } else {
                rng.usize_in(1, maxvars.max(1))
            };
            let mut g: Vec<(String, Fx)> = gen_names(rng, nv, prefix)
                .into_iter()
                .map(|n| (n, Fx::new(signed_coef(rng))))
                .collect();
            if nv >= 2 && rng.chance(0.1) {
                // a function of the DIFFERENCE of two variables: gradient (c, -c) and Hessian
                // k [[1,-1],[-1,1]], whose entries cancel exactly
                let c = signed_coef(rng);
                let k = signed_coef(rng) * v.abs().max(1e-3);
                g[0].1 = Fx::new(c);
                g[1].1 = Fx::new(-c);
                let h = vec![
                    (0, 0, Fx::new(k)),
                    (0, 1, Fx::new(-k)),
                    (1, 1, Fx::new(k)),
                ];
                return Num::D2 { v: Fx::new(v), g, h };
            }
            let mut h = Vec::new();
            for i in 0..nv {
                for j in i..nv {
                    if rng.chance(0.6) {
                        let s = v.abs().max(1e-3);
                        h.push((i, j, Fx::new(signed_coef(rng) * s * 0.3)));
                    }
                }
            }
            Num::D2 { v: Fx::new(v), g, h }
        }
    }
}
