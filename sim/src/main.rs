#![allow(dead_code)]
//! rlsim — deterministic simulation harness for attack68/rateslib (see /verif/DESIGN.md).
//!
//!   rlsim check <ID> <quick|thorough>      run a property check (parent: forks workers)
//!   rlsim replay <file>                    re-execute a replay file in this fresh process
//!   rlsim selftest determinism             cross-process / cross-worker-count digest proof
//!   rlsim gen <ID> <tier> <unit>           print the plan(s) of one unit (debugging)
//!   (internal) worker / minimise
//!
//! Exit codes: 0 property held on everything explored; 1 violation (a line
//! `VIOLATION property=<id> replay=<path>` is printed); 2 harness error.

mod c10;
mod c12;
mod c16;
mod c20;
mod jsonf;
mod gens;
mod core;
mod orchestrate;
mod pyx;
mod refad;
mod rng;
mod rsx;

use crate::core::Tier;

fn usage() -> ! {
    eprintln!("usage: rlsim check <ID> <quick|thorough> | replay <file> | selftest determinism | gen <ID> <tier> <unit>");
    std::process::exit(2);
}

fn main() {
    let args: Vec<String> = std::env::args().collect();
    if args.len() < 2 {
        usage();
    }
    core::install_panic_hook();
    let code = match args[1].as_str() {
        "check" => {
            if args.len() < 4 {
                usage();
            }
            let tier = Tier::parse(&args[3]).unwrap_or_else(|| usage());
            orchestrate::check(&args[2], tier)
        }
        "worker" => orchestrate::worker_main(&args[2..]),
        "minimise" => orchestrate::minimise_main(&args[2..]),
        "replay" => {
            if args.len() < 3 {
                usage();
            }
            orchestrate::replay_main(&args[2])
        }
        "selftest" => orchestrate::selftest(&args[2..]),
        "gen" => orchestrate::gen_main(&args[2..]),
        _ => usage(),
    };
    std::process::exit(code);
}
