//! C12 — curve values carry exact sensitivities to their nodes at every derivative order.
//!
//! System under simulation: one live curve (the Rust `CurveDF` with each of the five
//! interpolators, or the Python-facing `Curve` through the guarded hook) driven through
//! histories of `set_ad_order` — EVERY switch sequence over {0,1,2} up to a depth bound for
//! each seeded curve — with look-ups and index values probed after every switch against a
//! reference model (closed forms evaluated in the name-keyed reference AD, plus a tag state
//! machine).

use crate::core::*;
use crate::refad::{Em, R};
use crate::rng::{mix, Fnv, Rng};
use crate::rsx::*;
use chrono::NaiveDateTime;
use indexmap::IndexMap;
use rateslib::calendars::{CalType, Convention, Modifier, NamedCal};
use rateslib::curves::{
    CurveDF, FlatBackwardInterpolator, FlatForwardInterpolator, LinearInterpolator,
    LinearZeroRateInterpolator, LogLinearInterpolator, Nodes,
};
use rateslib::dual::{ADOrder, Number};
use rateslib::verif_hooks::VerifCurve;
use serde::{Deserialize, Serialize};
use std::collections::HashMap;

pub const P: &str = "C12";

pub const INTERPS: &[&str] = &[
    "linear",
    "log_linear",
    "linear_zero_rate",
    "flat_forward",
    "flat_backward",
];

#[derive(Clone, Debug, Serialize, Deserialize, PartialEq)]
pub struct NodeSpec {
    /// timestamp (whole seconds since epoch; the curve keys nodes by this)
    pub ts: i64,
    pub num: Num,
    /// fractional second of the node's datetime as supplied (the key truncates it)
    #[serde(default)]
    pub ns: u32,
}

pub fn node_ndt(n: &NodeSpec) -> NaiveDateTime {
    let base = ts_to_ndt(n.ts);
    if n.ns == 0 {
        base
    } else {
        base + chrono::Duration::nanoseconds(n.ns as i64)
    }
}

#[derive(Clone, Debug, Serialize, Deserialize, PartialEq)]
pub enum Ctor {
    /// rateslib::curves::CurveDF::try_new (public Rust API); order = kind of the nodes
    Df,
    /// the Python-facing Curve constructor with its `ad` argument
    Py { ad: u8 },
}

#[derive(Clone, Debug, Serialize, Deserialize, PartialEq)]
pub struct Setup {
    pub ctor: Ctor,
    /// in supply order (shuffled)
    pub nodes: Vec<NodeSpec>,
    pub interp: String,
    pub id: String,
    pub index_base: Option<Fx>,
    /// index into CONVENTIONS / MODIFIERS (irrelevant to look-ups; matters for save/load)
    #[serde(default)]
    pub convention: u8,
    #[serde(default)]
    pub modifier: u8,
    /// user-dual nodes are re-expressed on ONE shared variable list (same Arc, zero padding)
    #[serde(default)]
    pub share_vars: bool,
    /// the curve's calendar (irrelevant to look-ups): index into CURVE_CALS
    #[serde(default)]
    pub cal: u8,
}

pub const CURVE_CALS: &[&str] = &["all", "bus", "tgt", "nyc,ldn|fed"];

pub fn convention_of(i: u8) -> Convention {
    const C: [Convention; 11] = [
        Convention::Act360,
        Convention::One,
        Convention::OnePlus,
        Convention::Act365F,
        Convention::Act365FPlus,
        Convention::ThirtyE360,
        Convention::Thirty360,
        Convention::Thirty360ISDA,
        Convention::ActActISDA,
        Convention::ActActICMA,
        Convention::Bus252,
    ];
    C[(i as usize) % C.len()]
}

pub fn modifier_of(i: u8) -> Modifier {
    const M: [Modifier; 5] = [
        Modifier::ModF,
        Modifier::Act,
        Modifier::F,
        Modifier::P,
        Modifier::ModP,
    ];
    M[(i as usize) % M.len()]
}

#[derive(Clone, Debug, Serialize, Deserialize, PartialEq)]
pub enum History {
    /// every switch sequence over {0,1,2} up to this length (depth-first, prefix shared)
    Exhaustive { depth: u8 },
    /// one explicit sequence (used by minimised replays)
    Sequence(Vec<u8>),
}

#[derive(Clone, Debug, Serialize, Deserialize, PartialEq)]
pub struct Plan {
    pub setup: Setup,
    pub history: History,
    /// query timestamps (seconds)
    pub queries: Vec<i64>,
    /// fractional second of each query datetime (a value >= 1e9 on a second 59 is chrono's
    /// leap second); look-ups key by the whole second
    #[serde(default)]
    pub query_ns: Vec<u32>,
    /// also build a second curve with the same node count, first and last node but
    /// different interior dates, and look both up alternately (state shared across
    /// objects must not leak from one curve into the other)
    #[serde(default)]
    pub sibling: bool,
    /// also reach every order through a detour over another order WITHOUT any look-up in
    /// between (two switches back to back, then the probe)
    #[serde(default)]
    pub silent_detours: bool,
}

pub fn query_ndt(ts: i64, ns: u32) -> NaiveDateTime {
    let base = ts_to_ndt(ts);
    if ns == 0 {
        return base;
    }
    chrono::NaiveTime::from_num_seconds_from_midnight_opt(
        base.and_utc().timestamp().rem_euclid(86_400) as u32,
        ns,
    )
    .map(|t| base.date().and_time(t))
    .unwrap_or(base)
}

// ------------------------------------------------------------------ generation

const DAY: i64 = 86_400;

pub fn generate(rng: &mut Rng, tier: Tier) -> Plan {
    generate_with(rng, tier, false)
}

/// `allow_null`: a share of the Python-facing curves get the Null interpolator.
pub fn generate_with(rng: &mut Rng, tier: Tier, allow_null: bool) -> Plan {
    let n = match rng.below(100) {
        0..=39 => rng.usize_in(2, 3),
        40..=86 => rng.usize_in(2, 8),
        87..=96 => rng.usize_in(9, 20),
        // long curves: size thresholds in the interval search and in tag generation
        _ => rng.usize_in(21, 200),
    };
    let large = n > 20;
    let interp = rng.pick(INTERPS).to_string();
    let intraday = rng.chance(0.15);
    // node datetimes with a fractional second (the curve keys by whole seconds)
    let subsecond = rng.chance(0.06);
    // distinct midnight dates between 2000 and 2060 with arbitrary gaps
    let start_day = match rng.below(25) {
        0 => rng.i64_in(-25_000, -200),   // 1901..1969: negative timestamps
        1 => rng.i64_in(-400, 400),       // around the epoch
        2 => rng.i64_in(11_500, 11_580),  // around 2001-09-09 (timestamp digit count changes)
        3 => rng.i64_in(120_000, 200_000), // 2298..2517
        // around and beyond year 9999, before year 1
        4 if rng.chance(0.5) => rng.i64_in(2_925_000, 2_940_000),
        4 => rng.i64_in(-760_000, -719_000),
        _ => rng.i64_in(10957, 10957 + 3650),
    };
    let mut days = vec![start_day];
    for _ in 1..n {
        let gap = match rng.below(if large { 2 } else { 4 }) {
            0 => rng.i64_in(1, 3),
            1 => rng.i64_in(4, 120),
            2 => rng.i64_in(121, 1500),
            _ => rng.i64_in(1501, 10950),
        };
        // rarely an interval of more than 2^32 seconds (136 years)
        let gap = if !large && rng.chance(0.01) { rng.i64_in(49_800, 75_000) } else { gap };
        let next = days.last().unwrap() + gap;
        let cap = if gap > 40_000 { i64::MAX } else { start_day.max(10957) + 22000 + days.len() as i64 };
        days.push(next.min(cap).max(days.last().unwrap() + 1));
    }
    days.dedup();
    // sometimes one node sits exactly on the epoch (timestamp 0)
    if rng.chance(0.02) {
        let shift = *rng.pick(&days);
        for d in days.iter_mut() {
            *d -= shift;
        }
    }
    let n = days.len();
    let kind = rng.weighted(&[40, 35, 25]) as u8;
    let id = {
        let len = rng.usize_in(1, 6);
        let alphabet: Vec<char> = "abcxyzv_9Q".chars().collect();
        let mut s: String = (0..len).map(|_| *rng.pick(&alphabet)).collect();
        if s.chars().next().unwrap().is_ascii_digit() {
            s.insert(0, 'c');
        }
        // ids are arbitrary strings: padded, spaced, non-ASCII, digit-ending, empty
        match rng.below(16) {
            0 => format!(" {}", s),
            1 => format!("{} ", s),
            2 => format!("{}\t", s),
            3 => format!("{} {}", s, s),
            4 => format!("é{}ß", s),
            5 => format!("{}7", s),
            6 => String::new(),
            7 => (*rng.pick(&["desk\\", "NaN", "Infinity", "-Infinity", "null", "a\"b", "{", "x,y", "[1]"]))
                .to_string(),
            _ => s,
        }
    };
    let df_like = interp == "linear_zero_rate" || rng.chance(0.5);
    let wide_magnitude = rng.chance(0.08);
    let subsecond_queries = rng.chance(0.1);
    let many_vars = rng.chance(0.1);
    let mut nodes: Vec<NodeSpec> = Vec::new();
    let prefix = "u_";
    for (i, d) in days.iter().enumerate() {
        let v = if df_like {
            let yrs = (d - days[0]) as f64 / 365.0;
            let r = rng.f64_in(-0.02, 0.15);
            if i == 0 && rng.chance(0.7) {
                1.0
            } else {
                (-r * yrs.max(0.003)).exp()
            }
        } else {
            rng.log_uniform(0.05, 20.0)
        };
        // positive values of any magnitude (a few curves only: tiny or huge node values)
        let v = if !df_like && wide_magnitude {
            10f64.powf(rng.f64_in(-25.0, 25.0))
        } else {
            v
        };
        // round / repeated values: ln(1) = 0, equal neighbours give zero slopes
        let v = match rng.below(12) {
            0 => 1.0,
            1 if !nodes.is_empty() => nodes[nodes.len() - 1].num.value(),
            _ => v,
        };
        nodes.push(NodeSpec {
            ts: d * DAY + if intraday && *d != 0 { rng.i64_in(0, DAY - 1) } else { 0 },
            num: gen_num(rng, kind, v, if many_vars { if n <= 6 { 24 } else { 4 } } else { 2 }, prefix),
            ns: if subsecond && rng.chance(0.5) {
                rng.below(1_000_000_000) as u32
            } else {
                0
            },
        });
    }
    nodes.sort_by_key(|n| n.ts);
    nodes.dedup_by_key(|n| n.ts);
    let n = nodes.len();
    // a pair (or run) of nodes only seconds apart, decades after the first node: the
    // interpolation weight is then a small difference of large times
    if n >= 3 && rng.chance(0.05) {
        let runs = rng.usize_in(1, 2);
        for _ in 0..runs {
            let i = rng.usize_in(2, n - 1);
            let cand = nodes[i - 1].ts + rng.i64_in(1, 120);
            if i + 1 >= n || cand < nodes[i + 1].ts {
                nodes[i].ts = cand;
            }
        }
    }
    // a pair of nodes seconds apart at the very start and a last node tens of thousands of
    // years later (ratios of times of 1e12 and more)
    if n >= 3 && !large && rng.chance(if interp == "linear_zero_rate" { 0.03 } else { 0.003 }) {
        nodes[1].ts = nodes[0].ts + rng.i64_in(1, 6);
        let shift = rng.i64_in(40_000, 200_000) * 365 * DAY;
        let first_far = nodes[2].ts.max(nodes[1].ts + 1);
        for i in 2..n {
            nodes[i].ts = nodes[i].ts.max(first_far + (i as i64 - 2)) + shift;
        }
    }
    // sometimes a user variable carries the very name a generated tag would have
    if kind > 0 && rng.chance(0.04) {
        let j = rng.below(n as u64) as usize;
        let i = rng.below(n as u64) as usize;
        let tag = format!("{}{}", id, j);
        match &mut nodes[i].num {
            Num::D { g, .. } | Num::D2 { g, .. } => {
                if !g.is_empty() && !g.iter().any(|(nm, _)| nm == &tag) {
                    g[0].0 = tag;
                }
            }
            _ => {}
        }
    }
    // a linear curve whose extrapolation at weight 2 is exactly zero: (2c, c) at the end
    let exact_zero = interp == "linear" && n >= 2 && rng.chance(0.08);
    if exact_zero {
        let c = nodes[n - 1].num.value();
        nodes[n - 2].num = nodes[n - 2].num.with_value(2.0 * c);
    }
    // queries: node dates, midpoints, two interior points per interval, before and after
    let mut queries: Vec<i64> = Vec::new();
    for w in nodes.windows(2) {
        let (a, b) = (w[0].ts, w[1].ts);
        queries.push(a);
        queries.push(a + (b - a) / 2);
        if b - a >= 2 && !large {
            queries.push(a + 1 + rng.below((b - a - 1) as u64) as i64);
            queries.push(a + 1 + rng.below((b - a - 1) as u64) as i64);
        }
    }
    queries.push(nodes[n - 1].ts);
    let g0 = nodes[1].ts - nodes[0].ts;
    let gl = nodes[n - 1].ts - nodes[n - 2].ts;
    queries.push(nodes[0].ts - 1 - rng.below(g0.min(5 * 365 * DAY) as u64) as i64);
    queries.push(nodes[0].ts - 1);
    queries.push(nodes[n - 1].ts + 1 + rng.below(gl.min(5 * 365 * DAY) as u64) as i64);
    queries.push(nodes[n - 1].ts + 1);
    // dates that make an interpolation weight an exact small integer
    if g0 <= 5 * 365 * DAY {
        queries.push(nodes[0].ts - g0); // w = -1
    }
    if gl <= 5 * 365 * DAY {
        queries.push(nodes[n - 1].ts + gl); // w = 2
    }
    queries.push(nodes[0].ts + 1);
    if g0 > 2 {
        queries.push(nodes[0].ts + 2);
    }
    // far extrapolation of an exponential rule: tens to hundreds of interval lengths out,
    // where values run through 1e-100, 1e-250 and finally under- or overflow
    if (interp == "log_linear" || interp == "linear_zero_rate") && rng.chance(0.06) {
        for _ in 0..3 {
            let k = rng.log_uniform(5.0, 400.0);
            let after = nodes[n - 1].ts as f64 + k * gl as f64;
            if after.abs() < 4.0e12 {
                queries.push(after as i64);
            }
            if interp == "log_linear" {
                let before = nodes[0].ts as f64 - k * g0 as f64;
                if before.abs() < 4.0e12 {
                    queries.push(before as i64);
                }
            }
        }
    }
    rng.shuffle(&mut nodes);
    let ctor = if rng.chance(0.5) {
        Ctor::Df
    } else {
        Ctor::Py {
            ad: rng.below(3) as u8,
        }
    };
    let mut interp = interp;
    if let Ctor::Py { .. } = ctor {
        // the Python-facing constructor takes any mixture of floats, Duals and Dual2s
        if rng.chance(0.15) {
            let many = if many_vars { 4 } else { 2 };
            for nd in nodes.iter_mut() {
                let k = rng.below(3) as u8;
                nd.num = gen_num(rng, k, nd.num.value(), many, prefix);
            }
        }
        // ... and the interpolator that cannot be looked up (values are produced elsewhere)
        if allow_null && rng.chance(0.04) {
            interp = "null".to_string();
        }
    }
    let index_base = if rng.chance(0.6) {
        Some(Fx::new(match rng.below(20) {
            0 => 1.0,
            1 => -rng.log_uniform(50.0, 400.0),
            2 => rng.log_uniform(1e-20, 1e20),
            3 => *rng.pick(&[0.0, -0.0, 5e-324, f64::MIN_POSITIVE / 4.0]),
            _ => rng.log_uniform(50.0, 400.0),
        }))
    } else {
        None
    };
    let depth = match tier {
        _ if large => 2,
        Tier::Quick => 3,
        Tier::Thorough => {
            if rng.chance(0.25) {
                5
            } else {
                4
            }
        }
    };
    Plan {
        setup: Setup {
            ctor,
            nodes,
            interp,
            id,
            index_base,
            convention: rng.below(11) as u8,
            modifier: rng.below(5) as u8,
            share_vars: rng.chance(0.25),
            cal: if rng.chance(0.5) { 0 } else { rng.below(4) as u8 },
        },
        history: History::Exhaustive { depth },
        query_ns: if subsecond_queries {
            queries
                .iter()
                .map(|q| match rng.below(4) {
                    0 => rng.below(1_000_000_000) as u32,
                    // a leap second, where the whole second is :59
                    1 if q.rem_euclid(60) == 59 => 1_000_000_000 + rng.below(1_000_000_000) as u32,
                    _ => 0,
                })
                .collect()
        } else {
            vec![]
        },
        sibling: rng.chance(0.1),
        silent_detours: rng.chance(0.25),
        queries,
    }
}

// ------------------------------------------------------------------ system under test

pub enum Sut {
    Lin(CurveDF<LinearInterpolator, NamedCal>),
    LogLin(CurveDF<LogLinearInterpolator, NamedCal>),
    LinZero(CurveDF<LinearZeroRateInterpolator, NamedCal>),
    FlatF(CurveDF<FlatForwardInterpolator, NamedCal>),
    FlatB(CurveDF<FlatBackwardInterpolator, NamedCal>),
    Py(VerifCurve),
}

macro_rules! on_df {
    ($self:expr, $c:ident => $e:expr, $p:ident => $pe:expr) => {
        match $self {
            Sut::Lin($c) => $e,
            Sut::LogLin($c) => $e,
            Sut::LinZero($c) => $e,
            Sut::FlatF($c) => $e,
            Sut::FlatB($c) => $e,
            Sut::Py($p) => $pe,
        }
    };
}

impl Sut {
    pub fn clone_(&self) -> Sut {
        match self {
            Sut::Lin(c) => Sut::Lin(c.clone()),
            Sut::LogLin(c) => Sut::LogLin(c.clone()),
            Sut::LinZero(c) => Sut::LinZero(c.clone()),
            Sut::FlatF(c) => Sut::FlatF(c.clone()),
            Sut::FlatB(c) => Sut::FlatB(c.clone()),
            Sut::Py(c) => Sut::Py(c.clone()),
        }
    }
    pub fn value(&self, d: &NaiveDateTime) -> Number {
        on_df!(self, c => c.interpolated_value(d), p => p.value(*d))
    }
    pub fn index_value(&self, d: &NaiveDateTime) -> Result<Number, ()> {
        on_df!(self, c => c.index_value(d).map_err(|_| ()), p => p.index_value(*d).map_err(|_| ()))
    }
    pub fn set_order(&mut self, o: ADOrder) -> Result<(), ()> {
        on_df!(self, c => c.set_ad_order(o).map_err(|_| ()), p => p.set_ad_order(o).map_err(|_| ()))
    }
    pub fn ad(&self) -> ADOrder {
        on_df!(self, c => c.ad(), p => p.ad())
    }
}

/// Durable representations (used by the restart scenarios).
impl Sut {
    pub fn to_json(&self) -> Result<String, String> {
        use rateslib::json::JSON;
        on_df!(self, c => c.to_json().map_err(|e| e.to_string()), p => p.to_json_direct())
    }
    pub fn to_json_tagged(&self) -> Result<String, String> {
        use rateslib::json::JSON;
        on_df!(self, c => c.to_json().map_err(|e| e.to_string()), p => p.to_json_tagged())
    }
    pub fn to_bincode(&self) -> Result<Vec<u8>, String> {
        on_df!(self, c => bincode::serialize(c).map_err(|e| e.to_string()), p => p.to_bincode())
    }
    /// Load a curve of the same static type as `self` from JSON text.
    pub fn load_json(&self, text: &str, tagged: bool) -> Result<Sut, String> {
        use rateslib::json::JSON;
        match self {
            Sut::Lin(_) => CurveDF::from_json(text).map(Sut::Lin).map_err(|e| e.to_string()),
            Sut::LogLin(_) => CurveDF::from_json(text).map(Sut::LogLin).map_err(|e| e.to_string()),
            Sut::LinZero(_) => CurveDF::from_json(text).map(Sut::LinZero).map_err(|e| e.to_string()),
            Sut::FlatF(_) => CurveDF::from_json(text).map(Sut::FlatF).map_err(|e| e.to_string()),
            Sut::FlatB(_) => CurveDF::from_json(text).map(Sut::FlatB).map_err(|e| e.to_string()),
            Sut::Py(_) => {
                if tagged {
                    match rateslib::verif_hooks::from_tagged_json(text)? {
                        rateslib::verif_hooks::VerifObj::Curve(c) => Ok(Sut::Py(c)),
                        _ => Err("tagged JSON of a Curve came back as another type".into()),
                    }
                } else {
                    VerifCurve::from_json_direct(text).map(Sut::Py)
                }
            }
        }
    }
    pub fn load_bincode(&self, bytes: &[u8]) -> Result<Sut, String> {
        match self {
            Sut::Lin(_) => bincode::deserialize(bytes).map(Sut::Lin).map_err(|e| e.to_string()),
            Sut::LogLin(_) => bincode::deserialize(bytes).map(Sut::LogLin).map_err(|e| e.to_string()),
            Sut::LinZero(_) => bincode::deserialize(bytes).map(Sut::LinZero).map_err(|e| e.to_string()),
            Sut::FlatF(_) => bincode::deserialize(bytes).map(Sut::FlatF).map_err(|e| e.to_string()),
            Sut::FlatB(_) => bincode::deserialize(bytes).map(Sut::FlatB).map_err(|e| e.to_string()),
            Sut::Py(_) => VerifCurve::from_bincode(bytes).map(Sut::Py),
        }
    }
    pub fn equal(&self, other: &Sut) -> bool {
        match (self, other) {
            (Sut::Lin(a), Sut::Lin(b)) => a == b,
            (Sut::LogLin(a), Sut::LogLin(b)) => a == b,
            (Sut::LinZero(a), Sut::LinZero(b)) => a == b,
            (Sut::FlatF(a), Sut::FlatF(b)) => a == b,
            (Sut::FlatB(a), Sut::FlatB(b)) => a == b,
            (Sut::Py(a), Sut::Py(b)) => a.equals(b),
            _ => false,
        }
    }
}

fn all_user_names(nodes: &[NodeSpec]) -> Vec<String> {
    let mut out: Vec<String> = Vec::new();
    for n in nodes {
        let g = match &n.num {
            Num::D { g, .. } | Num::D2 { g, .. } => g,
            _ => continue,
        };
        for (nm, _) in g {
            if !out.contains(nm) {
                out.push(nm.clone());
            }
        }
    }
    out
}

/// Make a plan's nodes one kind (floats) if they are mixed: CurveDF takes one kind only.
pub fn unify_kinds(setup: &mut Setup) {
    if uniform_kind(&setup.nodes).is_none() {
        for n in setup.nodes.iter_mut() {
            n.num = Num::F(Fx::new(n.num.value()));
        }
    }
    if setup.interp == "null" {
        setup.interp = "log_linear".to_string();
    }
}

fn uniform_kind(nodes: &[NodeSpec]) -> Option<u8> {
    let k = nodes[0].num.kind();
    if nodes.iter().all(|n| n.num.kind() == k) {
        Some(k)
    } else {
        None
    }
}

pub fn build(setup: &Setup) -> Result<Sut, Fail> {
    build_with_cal(setup, None)
}

pub fn build_with_cal(setup: &Setup, pycal: Option<CalType>) -> Result<Sut, Fail> {
    let herr = |s: &str| Fail::Harness(HarnessError(s.to_string()));
    // (curves of one node or none are legal objects - the constructors accept them - though
    // they cannot be looked up; only the save/load scenario builds them)
    let kind = match (&setup.ctor, if setup.nodes.is_empty() { Some(0) } else { uniform_kind(&setup.nodes) }) {
        (_, Some(k)) => k,
        (Ctor::Py { .. }, None) => 3,
        (Ctor::Df, None) => return Err(herr("mixed node kinds in a CurveDF plan")),
    };
    match &setup.ctor {
        Ctor::Py { ad } => {
            let mut m: IndexMap<NaiveDateTime, Number> = IndexMap::new();
            // with `share_vars` all Dual nodes live on ONE variable list (same Arc, zero
            // padding), and so do all Dual2 nodes - as when every node value is computed
            // from one parameter vector
            let (a1, a2) = {
                use rateslib::dual::{Dual, Dual2};
                let names = all_user_names(&setup.nodes);
                (Dual::new(0.0, names.clone()), Dual2::new(0.0, names))
            };
            for n in &setup.nodes {
                let mut num = n.num.to_number().map_err(|e| herr(&e))?;
                if setup.share_vars {
                    use rateslib::dual::Vars;
                    num = match num {
                        Number::Dual(d) => Number::Dual(d.to_new_vars(a1.vars(), None)),
                        Number::Dual2(d) => Number::Dual2(d.to_new_vars(a2.vars(), None)),
                        o => o,
                    };
                }
                m.insert(node_ndt(n), num);
            }
            let cal = match pycal {
                Some(c) => c,
                None => CalType::NamedCal(
                    NamedCal::try_new(CURVE_CALS[setup.cal as usize % CURVE_CALS.len()])
                        .map_err(|_| herr("NamedCal refused"))?,
                ),
            };
            let c = call(P, "Curve::new", || {
                VerifCurve::new(
                    m,
                    &setup.interp,
                    order_of(*ad),
                    &setup.id,
                    convention_of(setup.convention),
                    modifier_of(setup.modifier),
                    cal,
                    setup.index_base.map(|b| b.get()),
                )
            })?;
            match c {
                Ok(c) => Ok(Sut::Py(c)),
                Err(e) => Err(Fail::Violation(Violation::new(
                    P,
                    format!("{}|constructor-refused|py", P),
                    format!("the Python-facing Curve constructor refused a valid curve: {}", e),
                ))),
            }
        }
        Ctor::Df => {
            let nodes = match kind {
                0 => Nodes::F64(IndexMap::from_iter(
                    setup
                        .nodes
                        .iter()
                        .map(|n| (node_ndt(n), n.num.value())),
                )),
                1 => {
                    use rateslib::dual::Vars;
                    let mut m = IndexMap::new();
                    let anchor = rateslib::dual::Dual::new(0.0, all_user_names(&setup.nodes));
                    for n in &setup.nodes {
                        if let Num::D { v, g } = &n.num {
                            let d = to_dual(v.get(), g).map_err(|e| herr(&e))?;
                            let d = if setup.share_vars {
                                d.to_new_vars(anchor.vars(), None)
                            } else {
                                d
                            };
                            m.insert(node_ndt(n), d);
                        }
                    }
                    Nodes::Dual(m)
                }
                _ => {
                    use rateslib::dual::Vars;
                    let mut m = IndexMap::new();
                    let anchor = rateslib::dual::Dual2::new(0.0, all_user_names(&setup.nodes));
                    for n in &setup.nodes {
                        if let Num::D2 { v, g, h } = &n.num {
                            let d = to_dual2(v.get(), g, h).map_err(|e| herr(&e))?;
                            let d = if setup.share_vars {
                                d.to_new_vars(anchor.vars(), None)
                            } else {
                                d
                            };
                            m.insert(node_ndt(n), d);
                        }
                    }
                    Nodes::Dual2(m)
                }
            };
            let cal = NamedCal::try_new(CURVE_CALS[setup.cal as usize % CURVE_CALS.len()])
                .map_err(|_| herr("NamedCal refused"))?;
            let ib = setup.index_base.map(|b| b.get());
            macro_rules! mk {
                ($Variant:ident, $I:ident) => {{
                    let r = call(P, "CurveDF::try_new", || {
                        CurveDF::try_new(
                            nodes,
                            $I::new(),
                            &setup.id,
                            convention_of(setup.convention),
                            modifier_of(setup.modifier),
                            ib,
                            cal,
                        )
                    })?;
                    match r {
                        Ok(c) => Ok(Sut::$Variant(c)),
                        Err(_) => Err(Fail::Violation(Violation::new(
                            P,
                            format!("{}|constructor-refused|df", P),
                            "CurveDF::try_new refused a valid curve".into(),
                        ))),
                    }
                }};
            }
            match setup.interp.as_str() {
                "linear" => mk!(Lin, LinearInterpolator),
                "log_linear" => mk!(LogLin, LogLinearInterpolator),
                "linear_zero_rate" => mk!(LinZero, LinearZeroRateInterpolator),
                "flat_forward" => mk!(FlatF, FlatForwardInterpolator),
                "flat_backward" => mk!(FlatB, FlatBackwardInterpolator),
                other => Err(herr(&format!("unknown interpolation {}", other))),
            }
        }
    }
}

// ------------------------------------------------------------------ model

/// Tag state of the model curve.
#[derive(Clone, Copy, PartialEq, Eq, Hash, Debug)]
struct Tags {
    order: u8,
    /// true: variables are the user's own; false: generated <id><i>
    own: bool,
    /// second-order terms of the user's numbers still present
    hess: bool,
}

struct Model {
    /// sorted by timestamp
    nodes: Vec<NodeSpec>,
    id: String,
    interp: String,
    base: Option<f64>,
}

impl Model {
    fn node_r(&self, i: usize, t: Tags) -> R {
        let n = &self.nodes[i];
        let v = n.num.value();
        if t.order == 0 {
            return R::constant(v);
        }
        if !t.own {
            return R::var(v, &format!("{}{}", self.id, i));
        }
        match &n.num {
            // (only in a curve of mixed kinds: the float nodes get the generated tag)
            Num::F(_) => R::var(v, &format!("{}{}", self.id, i)),
            Num::D { g, .. } => {
                let gg: Vec<(String, f64)> = g.iter().map(|(n, c)| (n.clone(), c.get())).collect();
                R::with(v, &gg, &[])
            }
            Num::D2 { g, h, .. } => {
                let gg: Vec<(String, f64)> = g.iter().map(|(n, c)| (n.clone(), c.get())).collect();
                let hh: Vec<(String, String, f64)> = if t.hess && t.order == 2 {
                    h.iter()
                        .map(|(i, j, c)| (g[*i].0.clone(), g[*j].0.clone(), c.get()))
                        .collect()
                } else {
                    vec![]
                };
                R::with(v, &gg, &hh)
            }
        }
    }

    /// Tag state after construction.
    fn initial(&self, setup: &Setup) -> Tags {
        let kind = self.nodes.iter().map(|n| n.num.kind()).max().unwrap_or(0);
        match &setup.ctor {
            Ctor::Df => Tags {
                order: kind,
                own: kind > 0,
                hess: kind == 2,
            },
            Ctor::Py { ad } => {
                if *ad == 0 {
                    Tags {
                        order: 0,
                        own: false,
                        hess: false,
                    }
                } else if kind == 0 {
                    Tags {
                        order: *ad,
                        own: false,
                        hess: false,
                    }
                } else {
                    Tags {
                        order: *ad,
                        own: true,
                        hess: kind == 2 && *ad == 2,
                    }
                }
            }
        }
    }

    fn switch(&self, t: Tags, k: u8) -> Tags {
        if t.order == k {
            return t;
        }
        match (t.order, k) {
            (_, 0) => Tags {
                order: 0,
                own: false,
                hess: false,
            },
            (0, k) => Tags {
                order: k,
                own: false,
                hess: false,
            },
            (1, 2) => Tags {
                order: 2,
                own: t.own,
                hess: false,
            },
            (2, 1) => Tags {
                order: 1,
                own: t.own,
                hess: false,
            },
            _ => t,
        }
    }

    /// interval: right end is the first node on or after x, clamped
    fn interval(&self, x: i64) -> usize {
        let n = self.nodes.len();
        for j in 1..n {
            if self.nodes[j].ts >= x {
                return j - 1;
            }
        }
        n - 2
    }

    fn value(&self, x: i64, t: Tags) -> R {
        let i = self.interval(x);
        let (x1, x2) = (self.nodes[i].ts as f64, self.nodes[i + 1].ts as f64);
        let xf = x as f64;
        let (y1, y2) = (self.node_r(i, t), self.node_r(i + 1, t));
        match self.interp.as_str() {
            "linear" => {
                let w = (xf - x1) / (x2 - x1);
                y1.add(&y2.sub(&y1).scale(w))
            }
            "log_linear" => {
                let w = (xf - x1) / (x2 - x1);
                let (l1, l2) = (y1.ln(), y2.ln());
                l1.add(&l2.sub(&l1).scale(w)).exp()
            }
            "linear_zero_rate" => {
                let x0 = self.nodes[0].ts as f64;
                let (t1, t2, tt) = (x1 - x0, x2 - x0, xf - x0);
                let r2 = y2.ln().scale(-1.0 / t2);
                let r = if t1 == 0.0 {
                    r2
                } else {
                    let r1 = y1.ln().scale(-1.0 / t1);
                    r1.add(&r2.sub(&r1).scale((tt - t1) / (t2 - t1)))
                };
                r.scale(-tt).exp()
            }
            "flat_forward" => {
                if x >= self.nodes[i + 1].ts {
                    y2
                } else {
                    y1
                }
            }
            _ => {
                // flat_backward
                if x <= self.nodes[i].ts {
                    y1
                } else {
                    y2
                }
            }
        }
    }

    fn node_names(&self, i: usize, t: Tags) -> Vec<String> {
        self.node_r(i, t).names()
    }

    fn all_names(&self, t: Tags) -> Vec<String> {
        let mut s = std::collections::BTreeSet::new();
        for i in 0..self.nodes.len() {
            for n in self.node_r(i, t).names() {
                s.insert(n);
            }
        }
        s.into_iter().collect()
    }
}

// ------------------------------------------------------------------ execution

fn v(sig: &str, msg: String) -> Fail {
    Fail::Violation(Violation::new(P, format!("{}|{}", P, sig), msg))
}

struct Ctx<'a> {
    model: &'a Model,
    queries: &'a [i64],
    query_ns: &'a [u32],
    initial_values: Vec<f64>,
    memo: HashMap<(Tags, usize), (R, Option<R>)>,
    ctor: &'static str,
    silent_detours: bool,
}

#[allow(clippy::too_many_arguments)]
fn check_number(
    what: &str,
    got: &Number,
    want: &R,
    names: &[String],
    allset: &std::collections::HashSet<String>,
    order: u8,
    ctx: &str,
    scale_floor: f64,
) -> Result<(), Fail> {
    let s = see(got);
    if s.kind != order {
        return Err(v(
            &format!("kind|{}|{}", what, ctx),
            format!(
                "{}: returned number has derivative kind {} but the curve is at order {}",
                what, s.kind, order
            ),
        ));
    }
    if !want.v.close(s.real) {
        return Err(v(
            &format!("value-vs-closed-form|{}|{}", what, ctx),
            format!(
                "{} = {:e}, closed form of the interpolation rule gives {:e}",
                what, s.real, want.v.x
            ),
        ));
    }
    if order == 0 {
        return Ok(());
    }
    for nm in &s.vars {
        if !allset.contains(nm) {
            let g = grad_of(got, &[nm.clone()])[0];
            if g != 0.0 {
                return Err(v(
                    &format!("unknown-variable|{}|{}", what, ctx),
                    format!(
                        "{} carries sensitivity {:e} to '{}', which is not a variable of any node",
                        what, g, nm
                    ),
                ));
            }
        }
    }
    // natural scale of a sensitivity (rounding residue allowed relative to it, also for
    // variables of nodes outside the interval, whose true sensitivity is zero)
    let gmax = want
        .g
        .values()
        .map(|e| e.x.abs().max(e.m))
        .fold(0.0_f64, f64::max);
    let scale_floor = scale_floor + gmax;
    let g = grad_of(got, names);
    for (i, nm) in names.iter().enumerate() {
        let mut w = want.grad(nm);
        // (where the closed form itself leaves the double range - inf - inf in its own
        // intermediates - there is nothing to compare against)
        if !w.x.is_finite() || !w.m.is_finite() {
            continue;
        }
        w.m += scale_floor;
        if !w.close(g[i]) {
            return Err(v(
                &format!("gradient|{}|{}", what, ctx),
                format!(
                    "d {}/d {} = {:e}, derivative of the closed form is {:e}",
                    what, nm, g[i], w.x
                ),
            ));
        }
    }
    if order == 2 {
        let h = hess_of(got, names).unwrap();
        let m = names.len();
        let hmax = want
            .h
            .values()
            .map(|e| e.x.abs().max(e.m))
            .fold(0.0_f64, f64::max);
        let scale_floor = scale_floor + hmax;
        for a in 0..m {
            for b in 0..m {
                let mut w = want.hess(&names[a], &names[b]);
                if !w.x.is_finite() || !w.m.is_finite() {
                    continue;
                }
                w.m += scale_floor;
                if !w.close(h[a * m + b]) {
                    return Err(v(
                        &format!("hessian|{}|{}", what, ctx),
                        format!(
                            "d2 {}/d {} d {} = {:e}, second derivative of the closed form is {:e}",
                            what,
                            names[a],
                            names[b],
                            h[a * m + b],
                            w.x
                        ),
                    ));
                }
            }
        }
    }
    Ok(())
}

fn probe(
    sut: &Sut,
    tags: Tags,
    c: &mut Ctx,
    ctx: &str,
    seq: &[u8],
    obs: &mut Obs,
) -> Result<(), Fail> {
    let model = c.model;
    let order = tags.order;
    let ad = call(P, "Curve::ad", || sut.ad())?;
    if order_num(ad) != order {
        return Err(v(
            &format!("ad-getter|{}", ctx),
            format!(
                "after switches {:?} ad() reports order {} but order {} was set",
                seq,
                order_num(ad),
                order
            ),
        ));
    }
    let all_names = model.all_names(tags);
    let allset: std::collections::HashSet<String> = all_names.iter().cloned().collect();
    let nn = model.nodes.len();
    let mut h = Fnv::new();
    let first_ts = model.nodes[0].ts;
    // the look-up order: the LAST query first (it was the last date looked up on this object
    // before the switch - whatever the object remembers about it must not survive), then all
    // queries in plan order, ending on that same date again
    let nq = c.queries.len();
    let order_idx: Vec<usize> = if nq > 1 {
        std::iter::once(nq - 1).chain(0..nq).collect()
    } else {
        (0..nq).collect()
    };
    for qi in order_idx {
        let q = &c.queries[qi];
        let d = query_ndt(*q, c.query_ns.get(qi).copied().unwrap_or(0));
        // the names whose sensitivities are compared: all of them, or for long curves the
        // interval's neighbourhood, both ends and a spread of far nodes (a sensitivity booked
        // to any other variable is still caught by the unknown-variable / value checks)
        let names_sub: Vec<String>;
        let names: &Vec<String> = if all_names.len() <= 40 {
            &all_names
        } else {
            let i = model.interval(*q);
            let mut idx: std::collections::BTreeSet<usize> = std::collections::BTreeSet::new();
            for k in i.saturating_sub(3)..(i + 5).min(nn) {
                idx.insert(k);
            }
            for k in [0, 1, 2, nn.saturating_sub(3), nn.saturating_sub(2), nn - 1] {
                idx.insert(k.min(nn - 1));
            }
            for j in 0..8 {
                idx.insert((j * nn / 8 + qi) % nn);
            }
            let mut set: std::collections::BTreeSet<String> = std::collections::BTreeSet::new();
            for k in idx {
                for nm in model.node_names(k, tags) {
                    set.insert(nm);
                }
            }
            names_sub = set.into_iter().collect();
            &names_sub
        };
        let (want, want_idx) = c
            .memo
            .entry((tags, qi))
            .or_insert_with(|| {
                let w = model.value(*q, tags);
                let wi = model.base.map(|b| R::exact(b).mul(&w.recip()));
                (w, wi)
            })
            .clone();
        // a looked-up value of exactly zero (linear extrapolation can produce it from positive
        // nodes): the value must be zero at every order and the index value base/0 = +-inf;
        // derivatives of 1/0 are not compared
        if want.v.x == 0.0 {
            let got = call(P, "Curve::value", || sut.value(&d))?;
            let s = see(&got);
            if s.kind != order || !want.v.close(s.real) {
                return Err(annotate(
                    v(
                        &format!("value-vs-closed-form|value|{}", ctx),
                        format!("value = {:e} (kind {}), closed form gives exactly 0", s.real, s.kind),
                    ),
                    seq,
                    *q,
                    c.ctor,
                ));
            }
            // where a value has underflowed to zero its sensitivities are zero too, not NaN
            if order > 0 {
                let gz = grad_of(&got, names);
                let hz = hess_of(&got, names).unwrap_or_default();
                if gz.iter().chain(hz.iter()).any(|x| !x.is_finite()) {
                    return Err(annotate(
                        v(
                            &format!("non-finite-sensitivity-at-zero-value|{}", ctx),
                            "a looked-up value of exactly 0 carries a non-finite sensitivity".into(),
                        ),
                        seq,
                        *q,
                        c.ctor,
                    ));
                }
            }
            if let (Some(b), true) = (model.base, *q >= first_ts) {
                if s.real == 0.0 {
                    let expect = b / s.real;
                    match call(P, "Curve::index_value", || sut.index_value(&d))? {
                        Ok(n) => {
                            let r = see(&n).real;
                            if r.to_bits() != expect.to_bits() && !(r.is_nan() && expect.is_nan()) {
                                return Err(annotate(
                                    v(
                                        &format!("index-value-at-zero-value|{}", ctx),
                                        format!(
                                            "index_value = {:e} where the curve value is exactly 0; base/value = {:e}",
                                            r, expect
                                        ),
                                    ),
                                    seq,
                                    *q,
                                    c.ctor,
                                ));
                            }
                            obs.count("reach.index_value_at_exactly_zero_value");
                        }
                        Err(()) => {
                            return Err(annotate(
                                v(
                                    &format!("index-value-error|{}", ctx),
                                    "index_value returned an error on a curve with index_base".into(),
                                ),
                                seq,
                                *q,
                                c.ctor,
                            ))
                        }
                    }
                }
            }
            continue;
        }
        // far outside any sensible regime (the squares that second derivatives need would
        // overflow or underflow): no verdict
        let extreme = want.v.x.abs() < 1e-60 || want.v.x.abs() > 1e60;
        if !want.v.x.is_finite() || (extreme && !(1e-280..=1e280).contains(&want.v.x.abs())) {
            obs.count("skipped.out_of_range_value");
            continue;
        }
        if extreme {
            // the exponential rules stay exact out here (no squares of the value are taken);
            // the index value, which needs 1/value^2, and the linear rule do not
            if model.interp != "log_linear" && model.interp != "linear_zero_rate" {
                obs.count("skipped.out_of_range_value");
                continue;
            }
            let got = call(P, "Curve::value", || sut.value(&d))?;
            digest_number(&mut h, &got);
            check_number("value", &got, &want, names, &allset, order, ctx, 0.0)
                .map_err(|e| annotate(e, seq, *q, c.ctor))?;
            obs.count("reach.far_extrapolated_value_beyond_1e60");
            continue;
        }
        let got = call(P, "Curve::value", || sut.value(&d))?;
        digest_number(&mut h, &got);
        let what = "value";
        check_number(what, &got, &want, names, &allset, order, ctx, 0.0)
            .map_err(|e| annotate(e, seq, *q, c.ctor))?;
        // values never move across the history
        let s = see(&got);
        let keep = Em {
            x: c.initial_values[qi],
            m: want.v.m,
        };
        // ("never changes any looked-up value": the same formula in the same order of
        // operations on the real parts - bit for bit)
        if !keep.close(s.real) || s.real.to_bits() != c.initial_values[qi].to_bits() {
            return Err(annotate(
                v(
                    &format!("value-moved|{}", ctx),
                    format!(
                        "looked-up value moved from {:e} to {:e}",
                        c.initial_values[qi], s.real
                    ),
                ),
                seq,
                *q,
                c.ctor,
            ));
        }
        // index value
        let iv = call(P, "Curve::index_value", || sut.index_value(&d))?;
        match (model.base, iv) {
            (None, Err(())) => {
                obs.count("probe.index_value_err_without_base");
            }
            (None, Ok(_)) => {
                return Err(annotate(
                    v(
                        &format!("index-value-without-base|{}", ctx),
                        "index_value returned a number on a curve without index_base".into(),
                    ),
                    seq,
                    *q,
                    c.ctor,
                ))
            }
            (Some(_), Err(())) => {
                return Err(annotate(
                    v(
                        &format!("index-value-error|{}", ctx),
                        "index_value returned an error on a curve with index_base".into(),
                    ),
                    seq,
                    *q,
                    c.ctor,
                ))
            }
            (Some(_), Ok(n)) => {
                digest_number(&mut h, &n);
                if *q < first_ts {
                    let s = see(&n);
                    let any_grad = grad_of(&n, names).iter().any(|g| *g != 0.0);
                    if s.real != 0.0 || any_grad {
                        return Err(annotate(
                            v(
                                &format!("index-value-before-first-node|{}", ctx),
                                format!(
                                    "index_value before the first node is {:e} (expected 0)",
                                    s.real
                                ),
                            ),
                            seq,
                            *q,
                            c.ctor,
                        ));
                    }
                    obs.count("reach.index_value_before_first_node");
                } else {
                    let wi = want_idx.as_ref().unwrap();
                    check_number("index_value", &n, wi, names, &allset, order, ctx, 0.0)
                        .map_err(|e| annotate(e, seq, *q, c.ctor))?;
                }
            }
        }
    }
    obs.count_n("probe.lookups", c.queries.len() as u64);
    obs.event(&format!("probe-{}", ctx), h.finish());
    Ok(())
}

fn annotate(f: Fail, seq: &[u8], q: i64, ctor: &str) -> Fail {
    match f {
        Fail::Violation(mut vv) => {
            vv.message = format!(
                "{} [constructor {}, switches {:?}, query date {}]",
                vv.message,
                ctor,
                seq,
                ts_to_ndt(q)
            );
            Fail::Violation(vv)
        }
        other => other,
    }
}

fn ctx_of(from: u8, to: u8) -> String {
    format!("switch-{}to{}", from, to)
}

#[allow(clippy::too_many_arguments)]
fn dfs(
    sut: &Sut,
    tags: Tags,
    depth: u8,
    seq: &mut Vec<u8>,
    c: &mut Ctx,
    obs: &mut Obs,
) -> Result<(), Fail> {
    if depth == 0 {
        return Ok(());
    }
    for k in 0..3u8 {
        let mut next = call(P, "Curve::clone", || sut.clone_())?;
        let r = call(P, "Curve::set_ad_order", || next.set_order(order_of(k)))?;
        seq.push(k);
        if r.is_err() {
            return Err(v(
                "set-order-error",
                format!("set_ad_order({}) returned an error after switches {:?}", k, seq),
            ));
        }
        let ntags = c.model.switch(tags, k);
        let ctx = ctx_of(tags.order, k);
        obs.count(&format!("op.switch.{}to{}", tags.order, k));
        if tags.own && k == 0 {
            obs.count("reach.user_variables_dropped");
        }
        if tags.order == 2 && k == 1 && tags.own {
            obs.count("reach.two_to_one_projection_of_user_variables");
        }
        probe(&next, ntags, c, &ctx, seq, obs)?;
        if c.silent_detours {
            // the same target order reached over each other order with no look-up in between
            for j in 0..3u8 {
                if j == k {
                    continue;
                }
                let mut det = call(P, "Curve::clone", || sut.clone_())?;
                let r1 = call(P, "Curve::set_ad_order", || det.set_order(order_of(j)))?;
                let r2 = call(P, "Curve::set_ad_order", || det.set_order(order_of(k)))?;
                if r1.is_err() || r2.is_err() {
                    return Err(v(
                        "set-order-error",
                        format!("set_ad_order returned an error after switches {:?} then {} then {}", &seq[..seq.len() - 1], j, k),
                    ));
                }
                let dtags = c.model.switch(c.model.switch(tags, j), k);
                let mut dseq: Vec<u8> = seq[..seq.len() - 1].to_vec();
                dseq.push(j);
                dseq.push(k);
                obs.count("op.switch.silent_detour");
                probe(&det, dtags, c, &format!("silent-{}via{}to{}", tags.order, j, k), &dseq, obs)?;
            }
        }
        let mut h = Fnv::new();
        h.str(&c.model.interp);
        h.u64(c.model.nodes.len() as u64);
        h.u64(ntags.order as u64);
        h.u64(ntags.own as u64);
        h.u64(ntags.hess as u64);
        h.u64(tags.order as u64);
        h.u64(seq.len() as u64);
        h.str(c.ctor);
        obs.state(h.finish());
        dfs(&next, ntags, depth - 1, seq, c, obs)?;
        if c.silent_detours {
            // ... and once IN PLACE, on the very object that has just been looked up (a clone
            // may not carry what the object remembers): away to another order and straight
            // back, then the probe
            let j = (ntags.order + 1 + depth % 2) % 3;
            if j != ntags.order {
                let r1 = call(P, "Curve::set_ad_order", || next.set_order(order_of(j)))?;
                let r2 = call(P, "Curve::set_ad_order", || next.set_order(order_of(ntags.order)))?;
                if r1.is_err() || r2.is_err() {
                    return Err(v(
                        "set-order-error",
                        format!("set_ad_order returned an error after switches {:?} then {} then {}", seq, j, ntags.order),
                    ));
                }
                let back = c.model.switch(c.model.switch(ntags, j), ntags.order);
                let mut dseq: Vec<u8> = seq.clone();
                dseq.push(j);
                dseq.push(ntags.order);
                obs.count("op.switch.silent_detour_in_place");
                probe(&next, back, c, &format!("inplace-{}via{}to{}", ntags.order, j, ntags.order), &dseq, obs)?;
            }
        }
        seq.pop();
    }
    Ok(())
}

/// A curve with the Null interpolator cannot be looked up; what the property still says about
/// it: switches succeed and are reported by `ad`, the nodes read back in date order with their
/// values, and an index curve's index value before the first node is zero (an error without
/// `index_base`) - none of which needs a curve value.
fn execute_null(plan: &Plan, obs: &mut Obs) -> Result<(), Fail> {
    let sut = build(&plan.setup)?;
    let mut sorted = plan.setup.nodes.clone();
    sorted.sort_by_key(|n| n.ts);
    let first_ts = sorted[0].ts;
    let seqs: Vec<Vec<u8>> = match &plan.history {
        History::Exhaustive { depth } => all_sequences((*depth).min(2)),
        History::Sequence(s) => vec![s.clone()],
    };
    obs.count("setup.Curve.__new__.null");
    for seq in seqs {
        let mut cur = call(P, "Curve::clone", || sut.clone_())?;
        let mut order = match plan.setup.ctor {
            Ctor::Py { ad } => ad,
            Ctor::Df => return Err(HarnessError("null interpolator needs the Python constructor".into()).into()),
        };
        for step in 0..=seq.len() {
            if step > 0 {
                let k = seq[step - 1];
                let r = call(P, "Curve::set_ad_order", || cur.set_order(order_of(k)))?;
                if r.is_err() {
                    return Err(v(
                        "set-order-error",
                        format!("set_ad_order({}) returned an error on a null-interpolated curve", k),
                    ));
                }
                order = k;
            }
            let ad = call(P, "Curve::ad", || cur.ad())?;
            if order_num(ad) != order {
                return Err(v(
                    "ad-getter|null",
                    format!("ad() reports order {} but order {} was set", order_num(ad), order),
                ));
            }
            if let Sut::Py(pc) = &cur {
                let got = call(P, "Curve::nodes", || pc.nodes())?;
                if got.len() != sorted.len() {
                    return Err(v("nodes|null", format!("{} nodes read back, {} supplied", got.len(), sorted.len())));
                }
                for (i, (k, n)) in got.iter().enumerate() {
                    let s = see(n);
                    if k.and_utc().timestamp() != sorted[i].ts
                        || s.real.to_bits() != sorted[i].num.value().to_bits()
                        || s.kind != order
                    {
                        return Err(v(
                            "nodes|null",
                            format!(
                                "node {} reads back as ({}, {:e}, kind {}) after switches {:?}; supplied ({}, {:e}), order {}",
                                i, k, s.real, s.kind, &seq[..step], ts_to_ndt(sorted[i].ts), sorted[i].num.value(), order
                            ),
                        ));
                    }
                }
            }
            for (qi, q) in plan.queries.iter().enumerate() {
                if *q >= first_ts {
                    continue;
                }
                let d = query_ndt(*q, plan.query_ns.get(qi).copied().unwrap_or(0));
                let iv = call(P, "Curve::index_value", || cur.index_value(&d))?;
                match (plan.setup.index_base, iv) {
                    (None, Err(())) => {}
                    (Some(_), Ok(n)) => {
                        let s = see(&n);
                        if s.real != 0.0 {
                            return Err(v(
                                "index-value-before-first-node|null",
                                format!("index_value before the first node is {:e} (expected 0)", s.real),
                            ));
                        }
                        obs.count("reach.null_curve_index_value_before_first_node");
                    }
                    (None, Ok(_)) => {
                        return Err(v(
                            "index-value-without-base|null",
                            "index_value returned a number on a curve without index_base".into(),
                        ))
                    }
                    (Some(_), Err(())) => {
                        return Err(v(
                            "index-value-error|null",
                            "index_value before the first node returned an error on a curve with index_base".into(),
                        ))
                    }
                }
            }
            obs.count("probe.null_curve_states");
        }
    }
    Ok(())
}

pub fn execute(plan: &Plan, obs: &mut Obs) -> Result<(), Fail> {
    if plan.setup.nodes.len() < 2 {
        return Err(HarnessError("curve plan needs at least two nodes".into()).into());
    }
    if plan.setup.interp == "null" {
        return execute_null(plan, obs);
    }
    let sut = build(&plan.setup)?;
    let mut sorted = plan.setup.nodes.clone();
    sorted.sort_by_key(|n| n.ts);
    for w in sorted.windows(2) {
        if w[0].ts == w[1].ts {
            return Err(HarnessError("duplicate node date in plan".into()).into());
        }
    }
    let model = Model {
        nodes: sorted,
        id: plan.setup.id.clone(),
        interp: plan.setup.interp.clone(),
        base: plan.setup.index_base.map(|b| b.get()),
    };
    let tags0 = model.initial(&plan.setup);
    let ctor: &'static str = match plan.setup.ctor {
        Ctor::Df => "CurveDF::try_new",
        Ctor::Py { .. } => "Curve.__new__",
    };
    // values at the start of the history
    let mut initial = Vec::new();
    for (qi, q) in plan.queries.iter().enumerate() {
        let d = query_ndt(*q, plan.query_ns.get(qi).copied().unwrap_or(0));
        let n = call(P, "Curve::value", || sut.value(&d))?;
        initial.push(see(&n).real);
    }
    let mut c = Ctx {
        model: &model,
        queries: &plan.queries,
        query_ns: &plan.query_ns,
        initial_values: initial,
        memo: HashMap::new(),
        ctor,
        silent_detours: plan.silent_detours,
    };
    obs.count(&format!("setup.{}.{}", ctor, plan.setup.interp));
    if model.nodes.len() > 20 {
        obs.count("reach.long_curve_over_20_nodes");
    }
    if model.nodes.len() > 128 {
        obs.count("reach.long_curve_over_128_nodes");
    }
    if uniform_kind(&model.nodes).is_none() {
        obs.count("reach.python_constructor_with_mixed_node_kinds");
    }
    if model.nodes.windows(2).skip(1).any(|w| w[1].ts - w[0].ts <= 120 && w[0].ts - model.nodes[0].ts > 10 * 365 * DAY) {
        obs.count("reach.nodes_seconds_apart_decades_after_first");
    }
    if plan.setup.share_vars && model.nodes[0].num.kind() > 0 {
        obs.count("reach.nodes_with_pointer_shared_variable_lists");
    }
    if model.nodes[0].ts < 0 {
        obs.count("reach.nodes_before_1970");
    }
    if plan.setup.id.trim() != plan.setup.id || plan.setup.id.is_empty() {
        obs.count("reach.padded_or_empty_curve_id");
    }
    probe(&sut, tags0, &mut c, "init", &[], obs)?;
    if plan.sibling && model.nodes.len() >= 3 {
        // same count, same first and last node, interior dates moved half-way to the next node
        let mut s2 = plan.setup.clone();
        s2.nodes.sort_by_key(|n| n.ts);
        let n2 = s2.nodes.len();
        for i in 1..n2 - 1 {
            let step = (s2.nodes[i + 1].ts - s2.nodes[i].ts) / 2;
            s2.nodes[i].ts += step;
        }
        let distinct = s2.nodes.windows(2).all(|w| w[0].ts < w[1].ts);
        if distinct && s2 != plan.setup {
            let sut2 = build(&s2)?;
            let model2 = Model {
                nodes: s2.nodes.clone(),
                id: s2.id.clone(),
                interp: s2.interp.clone(),
                base: s2.index_base.map(|b| b.get()),
            };
            let tags2 = model2.initial(&s2);
            let mut initial2 = Vec::new();
            for (qi, q) in plan.queries.iter().enumerate() {
                let d = query_ndt(*q, plan.query_ns.get(qi).copied().unwrap_or(0));
                let n = call(P, "Curve::value", || sut2.value(&d))?;
                initial2.push(see(&n).real);
            }
            let mut c2 = Ctx {
                model: &model2,
                queries: &plan.queries,
                query_ns: &plan.query_ns,
                initial_values: initial2,
                memo: HashMap::new(),
                ctor,
                silent_detours: false,
            };
            probe(&sut2, tags2, &mut c2, "sibling", &[], obs)?;
            // and the first curve again, after the other one has been looked up
            probe(&sut, tags0, &mut c, "init-after-sibling", &[], obs)?;
            obs.count("reach.two_curves_with_equal_ends_interleaved");
        }
    }
    match &plan.history {
        History::Exhaustive { depth } => {
            let mut seq = Vec::new();
            dfs(&sut, tags0, *depth, &mut seq, &mut c, obs)?;
        }
        History::Sequence(seq) => {
            let mut cur = sut;
            let mut tags = tags0;
            let mut done: Vec<u8> = Vec::new();
            for k in seq {
                let r = call(P, "Curve::set_ad_order", || cur.set_order(order_of(*k)))?;
                done.push(*k);
                if r.is_err() {
                    return Err(v(
                        "set-order-error",
                        format!(
                            "set_ad_order({}) returned an error after switches {:?}",
                            k, done
                        ),
                    ));
                }
                let ntags = model.switch(tags, *k);
                let ctx = ctx_of(tags.order, *k);
                probe(&cur, ntags, &mut c, &ctx, &done, obs)?;
                tags = ntags;
            }
        }
    }
    Ok(())
}

// ------------------------------------------------------------------ shrinking

fn all_sequences(depth: u8) -> Vec<Vec<u8>> {
    let mut out: Vec<Vec<u8>> = vec![vec![]];
    let mut frontier: Vec<Vec<u8>> = vec![vec![]];
    for _ in 0..depth {
        let mut next = Vec::new();
        for s in &frontier {
            for k in 0..3u8 {
                let mut t = s.clone();
                t.push(k);
                next.push(t);
            }
        }
        out.extend(next.iter().cloned());
        frontier = next;
    }
    out
}

pub fn shrink(plan: &Plan) -> Vec<Plan> {
    let mut out = Vec::new();
    match &plan.history {
        History::Exhaustive { depth } => {
            for s in all_sequences(*depth) {
                let mut p = plan.clone();
                p.history = History::Sequence(s);
                out.push(p);
            }
            return out;
        }
        History::Sequence(seq) => {
            for i in 0..seq.len() {
                let mut s = seq.clone();
                s.remove(i);
                let mut p = plan.clone();
                p.history = History::Sequence(s);
                out.push(p);
            }
        }
    }
    // fewer queries
    if plan.queries.len() > 1 {
        for i in 0..plan.queries.len() {
            let mut p = plan.clone();
            p.queries = vec![plan.queries[i]];
            p.query_ns = vec![plan.query_ns.get(i).copied().unwrap_or(0)];
            out.push(p);
        }
    }
    if plan.sibling {
        let mut p = plan.clone();
        p.sibling = false;
        out.push(p);
    }
    if plan.query_ns.iter().any(|x| *x != 0) {
        let mut p = plan.clone();
        p.query_ns = vec![];
        out.push(p);
    }
    // fewer nodes (keep >= 2)
    if plan.setup.nodes.len() > 2 {
        for i in 0..plan.setup.nodes.len() {
            let mut p = plan.clone();
            p.setup.nodes.remove(i);
            out.push(p);
        }
    }
    // sorted supply order
    {
        let mut p = plan.clone();
        p.setup.nodes.sort_by_key(|n| n.ts);
        if p != *plan {
            out.push(p);
        }
    }
    if plan.setup.index_base.is_some() {
        let mut p = plan.clone();
        p.setup.index_base = None;
        out.push(p);
    }
    if let Ctor::Py { .. } = plan.setup.ctor {
        if plan.setup.interp != "null" && uniform_kind(&plan.setup.nodes).is_some() {
            let mut p = plan.clone();
            p.setup.ctor = Ctor::Df;
            out.push(p);
        }
    }
    // simpler node values (uniform kind must be preserved: change all nodes together)
    let kind = plan.setup.nodes.iter().map(|n| n.num.kind()).max().unwrap_or(0);
    if kind > 0 {
        let mut p = plan.clone();
        for n in p.setup.nodes.iter_mut() {
            n.num = Num::F(Fx::new(n.num.value()));
        }
        out.push(p);
        if kind == 2 {
            let mut p = plan.clone();
            for n in p.setup.nodes.iter_mut() {
                if let Num::D2 { v, g, .. } = &n.num {
                    n.num = Num::D {
                        v: *v,
                        g: g.clone(),
                    };
                }
            }
            out.push(p);
        }
    }
    for i in 0..plan.setup.nodes.len() {
        for c in crate::c10::simpler_values(plan.setup.nodes[i].num.value()) {
            let mut p = plan.clone();
            p.setup.nodes[i].num = p.setup.nodes[i].num.with_value(c);
            out.push(p);
        }
    }
    if plan.setup.id != "v" {
        let mut p = plan.clone();
        p.setup.id = "v".into();
        out.push(p);
    }
    out
}

/// A float curve of `n` hourly nodes from 2000-01-01, switched 0 -> 1 -> 0 -> 2 -> 1 and looked
/// up in its first and last intervals, at its last nodes and beyond both ends.
fn big_curve(n: usize, salt: u64) -> Plan {
    let mut rng = Rng::new(salt);
    let t0 = 946_684_800i64;
    let nodes: Vec<NodeSpec> = (0..n)
        .map(|i| NodeSpec {
            ts: t0 + i as i64 * 3_600,
            num: Num::F(Fx::new(1.0 / (1.0 + 1e-6 * i as f64))),
            ns: 0,
        })
        .collect();
    let last = t0 + (n as i64 - 1) * 3_600;
    let mut queries: Vec<i64> = vec![t0 - 1_800, t0, t0 + 1_800, t0 + 3_600, t0 + 5_400];
    for k in 0..12i64 {
        queries.push(last - k * 3_600);
        queries.push(last - k * 3_600 - 1_800);
    }
    for _ in 0..10 {
        queries.push(t0 + rng.i64_in(0, (n as i64 - 1) * 3_600));
    }
    queries.push(last + 1_800);
    queries.push(last + 7_200);
    Plan {
        setup: Setup {
            ctor: Ctor::Df,
            nodes,
            interp: if rng.chance(0.5) { "log_linear".into() } else { "linear".into() },
            id: "big".into(),
            index_base: Some(Fx::new(100.0)),
            convention: 0,
            modifier: 0,
            share_vars: false,
            cal: 0,
        },
        history: History::Sequence(vec![1, 0, 2, 1]),
        queries,
        query_ns: vec![],
        sibling: false,
        silent_detours: false,
    }
}

pub struct C12;

impl Scenario for C12 {
    type Plan = Plan;
    const ID: &'static str = "C12";
    const BARE_PASS: bool = true;
    const LEVEL: &'static str = "exploration";

    fn units(tier: Tier) -> u64 {
        match tier {
            Tier::Quick => 12_000,
            Tier::Thorough => 60_000,
        }
    }
    fn unit(seed: u64, tier: Tier, unit: u64, sink: &mut dyn FnMut(Plan) -> bool) {
        // the size ladder: very long float curves (node counts that are no multiple of 8 or
        // 64), switched through the orders and looked up at both ends
        let stride = (Self::units(tier) / 17).max(1);
        let ladder: &[usize] = match tier {
            Tier::Quick => &[50_003],
            Tier::Thorough => &[50_003, 65_537, 131_075],
        };
        if unit % stride == 7 && ((unit / stride) as usize) < ladder.len() {
            sink(big_curve(ladder[(unit / stride) as usize], mix(seed, "C12-big", unit)));
            return;
        }
        let mut rng = Rng::new(mix(seed, "C12", unit));
        sink(generate_with(&mut rng, tier, true));
    }
    fn budget(plan: &Plan) -> u64 {
        // (the deep exhaustive histories of the thorough tier, with silent detours on curves of
        // many nodes and variables, are slow, not stuck: one such plan took 25 CPU-seconds)
        if plan.setup.nodes.len() > 5_000 {
            30
        } else if matches!(plan.history, History::Exhaustive { depth } if depth >= 4) {
            10
        } else if plan.silent_detours {
            3
        } else {
            1
        }
    }
    fn execute(plan: &Plan, obs: &mut Obs) -> Result<(), Fail> {
        execute(plan, obs)
    }
    fn shrink(plan: &Plan) -> Vec<Plan> {
        shrink(plan)
    }
    fn nontrivial(plan: &Plan) -> bool {
        match &plan.history {
            History::Exhaustive { depth } => *depth >= 2,
            History::Sequence(s) => s.len() >= 2,
        }
    }
    fn label(_plan: &Plan) -> String {
        "Curve order-switch history".into()
    }
    fn rule() -> String {
        "one evaluation = one seeded curve (2..20 nodes, 3 % of curves 21..200, at distinct dates 1901..2500 with gaps of 1 day..30 years and sometimes times of day, supplied in shuffled order; round and repeated values; arbitrary ids; float, user-Dual or user-Dual2 node values; one of five interpolation rules; built through CurveDF::try_new or through the Python-facing Curve constructor at order 0/1/2; with or without index_base) on which EVERY sequence of set_ad_order switches over {0,1,2} up to depth 3 (quick) / 4-5 (thorough) is executed depth-first; after every switch every query date (each node date, midpoint and two interior points of every interval, two dates before the first and two after the last node) is looked up and compared (value, kind, variable names, gradient, Hessian, index_value) with the closed form evaluated in the reference AD under the model's tag state. Distinct = distinct plan digest; non-trivial = history depth >= 2.".into()
    }
    fn assumptions() -> Vec<String> {
        vec![
            "positive finite node values (0.05..20, or discount-factor-like with zero rates in -2%..15% for linear_zero_rate); distinct node dates; node values of one kind per curve for CurveDF::try_new, any mixture of float / Dual / Dual2 for the Python-facing constructor (floats then get the generated tag, duals keep their own variables); a curve with the Null interpolator is only asked what does not need a curve value (switches, ad, node read-back, index_value before the first node)".into(),
            "extrapolation queries lie within one interval length (at most 5 years) of the end nodes".into(),
            "numerical agreement judged with a running first-order error bound (1e5 eps x magnitude)".into(),
            "switch histories are exhaustive up to the stated depth per sampled curve; the curves themselves are sampled".into(),
            "no thread schedules are sampled: all mutation is behind &mut self (DESIGN 1.2)".into(),
        ]
    }
    fn components() -> serde_json::Value {
        serde_json::json!({
            "real": ["rateslib::curves::CurveDF (try_new, set_ad_order, interpolated_value, index_value, ad) with the five interpolators", "the Python-facing Curve (constructor with nodes_into_order, __getitem__, index_value, set_ad_order, ad) through the verif-hooks feature", "rateslib::dual arithmetic, exp/log, gradient read-back"],
            "stub": ["Python layer argument conversion (pyo3) is not executed", "calendar is the built-in 'all' (irrelevant to look-ups)"],
            "model": ["closed forms of the five rules evaluated in the name-keyed reference AD (refad.rs)", "tag state machine: 0->k tags <id><i> in date order; 1<->2 keeps names; k->0 drops"]
        })
    }
    fn extra_coverage(tier: Tier) -> serde_json::Value {
        serde_json::json!({
            "state_abstraction": "(interpolation rule, node count, order after the switch, own-variables flag, user-Hessian flag, order before the switch, history length, constructor)",
            "history_space": match tier { Tier::Quick => "all 39 switch sequences of length 1..3 per curve", Tier::Thorough => "all 120 (depth 4) or 363 (depth 5) switch sequences per curve" },
            "history_dimension_exhaustive_up_to_bound": true
        })
    }
}
