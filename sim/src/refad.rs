//! Reference model arithmetic.
//!
//! `Em` is a double with a first-order running error bound `m` (in units of machine epsilon):
//! |computed - exact| <~ EPS * m for any reasonable evaluation order of the same formula.
//! `R` is an independent second-order forward-mode AD number keyed by variable NAME
//! (BTreeMaps), deliberately unlike rateslib's positional ndarray / half-Hessian layout.

use std::collections::BTreeMap;

pub const EPS: f64 = f64::EPSILON;
/// tolerance factor: |actual - model| <= TOL_K * EPS * m
pub const TOL_K: f64 = 1.0e5;

#[derive(Clone, Copy, Debug)]
pub struct Em {
    pub x: f64,
    pub m: f64,
}

impl Em {
    pub fn leaf(x: f64) -> Em {
        Em { x, m: x.abs() }
    }
    pub fn exact(x: f64) -> Em {
        Em { x, m: 0.0 }
    }
    pub fn zero() -> Em {
        Em { x: 0.0, m: 0.0 }
    }
    pub fn add(self, o: Em) -> Em {
        let x = self.x + o.x;
        Em {
            x,
            m: self.m + o.m + x.abs(),
        }
    }
    pub fn sub(self, o: Em) -> Em {
        let x = self.x - o.x;
        Em {
            x,
            m: self.m + o.m + x.abs(),
        }
    }
    pub fn mul(self, o: Em) -> Em {
        let x = self.x * o.x;
        Em {
            x,
            m: self.x.abs() * o.m + o.x.abs() * self.m + x.abs(),
        }
    }
    pub fn scale(self, c: f64) -> Em {
        let x = self.x * c;
        Em {
            x,
            m: c.abs() * self.m + x.abs(),
        }
    }
    pub fn neg(self) -> Em {
        Em {
            x: -self.x,
            m: self.m,
        }
    }
    pub fn recip(self) -> Em {
        let x = 1.0 / self.x;
        Em {
            x,
            m: self.m / (self.x * self.x) + x.abs(),
        }
    }
    pub fn div(self, o: Em) -> Em {
        self.mul(o.recip())
    }
    pub fn exp(self) -> Em {
        let x = self.x.exp();
        Em {
            x,
            m: x.abs() * self.m + x.abs(),
        }
    }
    pub fn ln(self) -> Em {
        let x = self.x.ln();
        Em {
            x,
            m: self.m / self.x.abs() + x.abs(),
        }
    }
    /// Is `actual` within tolerance of this model value?
    pub fn close(&self, actual: f64) -> bool {
        self.close_k(actual, TOL_K)
    }
    pub fn close_k(&self, actual: f64, k: f64) -> bool {
        if !actual.is_finite() || !self.x.is_finite() {
            return actual.to_bits() == self.x.to_bits() || (actual == self.x);
        }
        (actual - self.x).abs() <= k * EPS * self.m + 1e-300
    }
}

/// Second-order forward AD number keyed by variable name. `h` holds the FULL (not half)
/// Hessian, keyed by (a, b) with a <= b.
#[derive(Clone, Debug)]
pub struct R {
    pub v: Em,
    pub g: BTreeMap<String, Em>,
    pub h: BTreeMap<(String, String), Em>,
}

fn key(a: &str, b: &str) -> (String, String) {
    if a <= b {
        (a.to_string(), b.to_string())
    } else {
        (b.to_string(), a.to_string())
    }
}

impl R {
    pub fn constant(x: f64) -> R {
        R {
            v: Em::leaf(x),
            g: BTreeMap::new(),
            h: BTreeMap::new(),
        }
    }
    pub fn exact(x: f64) -> R {
        R {
            v: Em::exact(x),
            g: BTreeMap::new(),
            h: BTreeMap::new(),
        }
    }
    /// A variable with unit sensitivity to `name`.
    pub fn var(x: f64, name: &str) -> R {
        let mut g = BTreeMap::new();
        g.insert(name.to_string(), Em::exact(1.0));
        R {
            v: Em::leaf(x),
            g,
            h: BTreeMap::new(),
        }
    }
    /// A number with given first-order coefficients and full Hessian entries.
    pub fn with(x: f64, grad: &[(String, f64)], hess: &[(String, String, f64)]) -> R {
        let mut g = BTreeMap::new();
        for (n, c) in grad {
            g.insert(n.clone(), Em::leaf(*c));
        }
        let mut h = BTreeMap::new();
        for (a, b, c) in hess {
            h.insert(key(a, b), Em::leaf(*c));
        }
        R {
            v: Em::leaf(x),
            g,
            h,
        }
    }
    pub fn names(&self) -> Vec<String> {
        let mut s: std::collections::BTreeSet<String> = self.g.keys().cloned().collect();
        for (a, b) in self.h.keys() {
            s.insert(a.clone());
            s.insert(b.clone());
        }
        s.into_iter().collect()
    }
    pub fn grad(&self, n: &str) -> Em {
        self.g.get(n).copied().unwrap_or_else(Em::zero)
    }
    pub fn hess(&self, a: &str, b: &str) -> Em {
        self.h.get(&key(a, b)).copied().unwrap_or_else(Em::zero)
    }
    /// Drop all second-order terms (what a first-order number keeps).
    pub fn drop2(&self) -> R {
        R {
            v: self.v,
            g: self.g.clone(),
            h: BTreeMap::new(),
        }
    }
    /// Drop all derivative terms.
    pub fn drop1(&self) -> R {
        R {
            v: self.v,
            g: BTreeMap::new(),
            h: BTreeMap::new(),
        }
    }

    fn all_names(a: &R, b: &R) -> Vec<String> {
        let mut s: std::collections::BTreeSet<String> = a.names().into_iter().collect();
        for n in b.names() {
            s.insert(n);
        }
        s.into_iter().collect()
    }

    pub fn add(&self, o: &R) -> R {
        let names = R::all_names(self, o);
        let mut g = BTreeMap::new();
        let mut h = BTreeMap::new();
        for (i, a) in names.iter().enumerate() {
            if self.g.contains_key(a) || o.g.contains_key(a) {
                g.insert(a.clone(), self.grad(a).add(o.grad(a)));
            }
            for b in names.iter().skip(i) {
                let k = key(a, b);
                if self.h.contains_key(&k) || o.h.contains_key(&k) {
                    h.insert(k, self.hess(a, b).add(o.hess(a, b)));
                }
            }
        }
        R {
            v: self.v.add(o.v),
            g,
            h,
        }
    }
    pub fn neg(&self) -> R {
        R {
            v: self.v.neg(),
            g: self.g.iter().map(|(k, v)| (k.clone(), v.neg())).collect(),
            h: self.h.iter().map(|(k, v)| (k.clone(), v.neg())).collect(),
        }
    }
    pub fn sub(&self, o: &R) -> R {
        self.add(&o.neg())
    }
    pub fn scale(&self, c: f64) -> R {
        R {
            v: self.v.scale(c),
            g: self.g.iter().map(|(k, v)| (k.clone(), v.scale(c))).collect(),
            h: self.h.iter().map(|(k, v)| (k.clone(), v.scale(c))).collect(),
        }
    }
    pub fn mul(&self, o: &R) -> R {
        let names = R::all_names(self, o);
        let mut g = BTreeMap::new();
        let mut h = BTreeMap::new();
        for (i, a) in names.iter().enumerate() {
            let ga = self.v.mul(o.grad(a)).add(o.v.mul(self.grad(a)));
            g.insert(a.clone(), ga);
            for b in names.iter().skip(i) {
                let t = self
                    .v
                    .mul(o.hess(a, b))
                    .add(o.v.mul(self.hess(a, b)))
                    .add(self.grad(a).mul(o.grad(b)))
                    .add(self.grad(b).mul(o.grad(a)));
                h.insert(key(a, b), t);
            }
        }
        R {
            v: self.v.mul(o.v),
            g,
            h,
        }
    }
    /// Apply a scalar function with value f, first derivative d1 and second derivative d2
    /// (all evaluated at self.v).
    fn chain(&self, f: Em, d1: Em, d2: Em) -> R {
        let names = self.names();
        let mut g = BTreeMap::new();
        let mut h = BTreeMap::new();
        for (i, a) in names.iter().enumerate() {
            g.insert(a.clone(), d1.mul(self.grad(a)));
            for b in names.iter().skip(i) {
                let t = d1
                    .mul(self.hess(a, b))
                    .add(d2.mul(self.grad(a)).mul(self.grad(b)));
                h.insert(key(a, b), t);
            }
        }
        R { v: f, g, h }
    }
    pub fn recip(&self) -> R {
        let r = self.v.recip();
        let d1 = r.mul(r).neg();
        let d2 = r.mul(r).mul(r).scale(2.0);
        self.chain(r, d1, d2)
    }
    pub fn div(&self, o: &R) -> R {
        self.mul(&o.recip())
    }
    pub fn exp(&self) -> R {
        let e = self.v.exp();
        self.chain(e, e, e)
    }
    pub fn ln(&self) -> R {
        let l = self.v.ln();
        let r = self.v.recip();
        self.chain(l, r, r.mul(r).neg())
    }
}

/// Self-check of the reference AD against central finite differences on fixed expressions.
/// Returns Err(description) on failure (=> harness error, exit 2).
pub fn self_check() -> Result<(), String> {
    type F = fn(&[R]) -> R;
    let exprs: Vec<(&str, F)> = vec![
        ("mul-recip", |x| x[0].mul(&x[1]).mul(&x[2].recip())),
        ("exp-ln", |x| {
            x[0].ln().scale(0.3).add(&x[1].ln().scale(0.7)).exp().mul(&x[2])
        }),
        ("lin", |x| {
            x[0].add(&x[1].sub(&x[0]).scale(0.37)).div(&x[2])
        }),
        ("zero-rate", |x| {
            let r1 = x[0].ln().scale(-1.0 / 2.0);
            let r2 = x[1].ln().scale(-1.0 / 5.0);
            let r = r1.add(&r2.sub(&r1).scale(0.4));
            r.scale(-3.2).exp().mul(&x[2]).mul(&x[2])
        }),
        ("chain-recip", |x| {
            x[0].recip().mul(&x[1]).recip().mul(&x[2].mul(&x[0]))
        }),
    ];
    let pt = [1.3_f64, 0.7, 2.1];
    let names = ["a", "b", "c"];
    let eval = |f: F, p: &[f64]| -> f64 {
        let xs: Vec<R> = p.iter().map(|v| R::constant(*v)).collect();
        f(&xs).v.x
    };
    for (label, f) in exprs {
        let xs: Vec<R> = pt
            .iter()
            .zip(names.iter())
            .map(|(v, n)| R::var(*v, n))
            .collect();
        let r = f(&xs);
        if (r.v.x - eval(f, &pt)).abs() > 1e-14 * r.v.x.abs() {
            return Err(format!("refad self-check {}: value mismatch", label));
        }
        let h1 = 1e-5;
        for i in 0..3 {
            let mut p = pt;
            p[i] += h1;
            let up = eval(f, &p);
            p[i] -= 2.0 * h1;
            let dn = eval(f, &p);
            let fd = (up - dn) / (2.0 * h1);
            let g = r.grad(names[i]).x;
            if (fd - g).abs() > 1e-7 * (1.0 + g.abs()) {
                return Err(format!(
                    "refad self-check {}: d/d{} fd={} ad={}",
                    label, names[i], fd, g
                ));
            }
            for j in 0..3 {
                let h2 = 1e-4;
                let mut pp = pt;
                let mut e = |si: f64, sj: f64| {
                    pp = pt;
                    pp[i] += si * h2;
                    pp[j] += sj * h2;
                    eval(f, &pp)
                };
                let fd2 = (e(1.0, 1.0) - e(1.0, -1.0) - e(-1.0, 1.0) + e(-1.0, -1.0))
                    / (4.0 * h2 * h2);
                let hh = r.hess(names[i], names[j]).x;
                if (fd2 - hh).abs() > 1e-5 * (1.0 + hh.abs()) {
                    return Err(format!(
                        "refad self-check {}: d2/d{}d{} fd={} ad={}",
                        label, names[i], names[j], fd2, hh
                    ));
                }
            }
        }
    }
    Ok(())
}
