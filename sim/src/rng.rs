//! Seeded PRNG: SplitMix64 for seed derivation, xoshiro256** for streams.
//! The PRNG is used only to GENERATE plans. Executing a plan draws nothing.

#[inline]
pub fn splitmix64(state: &mut u64) -> u64 {
    *state = state.wrapping_add(0x9E3779B97F4A7C15);
    let mut z = *state;
    z = (z ^ (z >> 30)).wrapping_mul(0xBF58476D1CE4E5B9);
    z = (z ^ (z >> 27)).wrapping_mul(0x94D049BB133111EB);
    z ^ (z >> 31)
}

/// Per-run seed: a pure function of (master seed, property tag, run index).
pub fn mix(seed: u64, tag: &str, run: u64) -> u64 {
    let mut s = seed ^ 0xD1B54A32D192ED03;
    let mut h = splitmix64(&mut s);
    for b in tag.bytes() {
        s ^= b as u64;
        h ^= splitmix64(&mut s);
    }
    s ^= run.wrapping_mul(0xA24BAED4963EE407);
    h ^ splitmix64(&mut s)
}

#[derive(Clone, Debug)]
pub struct Rng {
    s: [u64; 4],
}

impl Rng {
    pub fn new(seed: u64) -> Self {
        let mut st = seed;
        let s = [
            splitmix64(&mut st),
            splitmix64(&mut st),
            splitmix64(&mut st),
            splitmix64(&mut st),
        ];
        Rng { s }
    }

    #[inline]
    pub fn next_u64(&mut self) -> u64 {
        let result = self.s[1].wrapping_mul(5).rotate_left(7).wrapping_mul(9);
        let t = self.s[1] << 17;
        self.s[2] ^= self.s[0];
        self.s[3] ^= self.s[1];
        self.s[1] ^= self.s[2];
        self.s[0] ^= self.s[3];
        self.s[2] ^= t;
        self.s[3] = self.s[3].rotate_left(45);
        result
    }

    /// Uniform in [0, n). n must be > 0.
    pub fn below(&mut self, n: u64) -> u64 {
        assert!(n > 0);
        // rejection-free multiply-shift; bias negligible for our n
        ((self.next_u64() as u128 * n as u128) >> 64) as u64
    }

    pub fn usize_in(&mut self, lo: usize, hi_incl: usize) -> usize {
        lo + self.below((hi_incl - lo + 1) as u64) as usize
    }

    pub fn i64_in(&mut self, lo: i64, hi_incl: i64) -> i64 {
        lo + self.below((hi_incl - lo + 1) as u64) as i64
    }

    /// Uniform in [0,1)
    pub fn unit(&mut self) -> f64 {
        (self.next_u64() >> 11) as f64 / (1u64 << 53) as f64
    }

    pub fn chance(&mut self, p: f64) -> bool {
        self.unit() < p
    }

    pub fn f64_in(&mut self, lo: f64, hi: f64) -> f64 {
        lo + (hi - lo) * self.unit()
    }

    /// Log-uniform positive number in [lo, hi]
    pub fn log_uniform(&mut self, lo: f64, hi: f64) -> f64 {
        (lo.ln() + (hi.ln() - lo.ln()) * self.unit()).exp()
    }

    pub fn pick<'a, T>(&mut self, xs: &'a [T]) -> &'a T {
        &xs[self.below(xs.len() as u64) as usize]
    }

    pub fn shuffle<T>(&mut self, xs: &mut [T]) {
        for i in (1..xs.len()).rev() {
            let j = self.below((i + 1) as u64) as usize;
            xs.swap(i, j);
        }
    }

    /// Weighted choice: returns index.
    pub fn weighted(&mut self, w: &[u32]) -> usize {
        let total: u64 = w.iter().map(|x| *x as u64).sum();
        let mut r = self.below(total);
        for (i, x) in w.iter().enumerate() {
            if r < *x as u64 {
                return i;
            }
            r -= *x as u64;
        }
        w.len() - 1
    }
}

/// FNV-1a 64-bit, used for digests (never for generation).
#[derive(Clone, Copy, Debug)]
pub struct Fnv(pub u64);

impl Default for Fnv {
    fn default() -> Self {
        Fnv(0xcbf29ce484222325)
    }
}

impl Fnv {
    pub fn new() -> Self {
        Self::default()
    }
    #[inline]
    pub fn bytes(&mut self, b: &[u8]) {
        for x in b {
            self.0 ^= *x as u64;
            self.0 = self.0.wrapping_mul(0x100000001b3);
        }
    }
    pub fn u64(&mut self, v: u64) {
        self.bytes(&v.to_le_bytes());
    }
    pub fn f64(&mut self, v: f64) {
        self.u64(v.to_bits());
    }
    pub fn str(&mut self, s: &str) {
        self.u64(s.len() as u64);
        self.bytes(s.as_bytes());
    }
    pub fn finish(&self) -> u64 {
        self.0
    }
}

pub fn hash_str(s: &str) -> u64 {
    let mut h = Fnv::new();
    h.str(s);
    h.finish()
}
