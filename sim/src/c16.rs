//! C16 — saving and loading an object gives back an equal object (restart durability).
//!
//! Twin-run simulation: A is never restarted, B is crashed and restarted from its durable
//! bytes (JSON, tagged JSON, bincode) at seeded points of the object's life. After each
//! restart B must load, compare equal to A, answer the type's query suite bit-identically,
//! re-save to the same bytes, and stay in lock-step with A for the rest of the life.

use crate::c10;
use crate::c12;
use crate::core::*;
use crate::gens::*;
use crate::rng::{mix, Fnv, Rng};
use crate::rsx::*;
use chrono::NaiveDateTime;
use rateslib::calendars::{Cal, CalType, DateRoll, Modifier, NamedCal, RollDay, UnionCal};
use rateslib::dual::{Dual, Dual2, Number};
use rateslib::fx::rates::{FXRate, FXRates};
use rateslib::json::JSON;
use rateslib::splines::{PPSpline, PPSplineDual, PPSplineDual2, PPSplineF64};
use rateslib::verif_hooks as hooks;
use rateslib::verif_hooks::VerifObj;
use serde::{Deserialize, Serialize};

pub const P: &str = "C16";

#[derive(Clone, Copy, Debug, Serialize, Deserialize, PartialEq, Eq)]
pub enum Medium {
    Json,
    Tagged,
    Bincode,
    /// Python's pickle on the extension classes in the embedded interpreter
    Pickle,
}

impl Medium {
    fn name(&self) -> &'static str {
        match self {
            Medium::Json => "json",
            Medium::Tagged => "tagged-json",
            Medium::Bincode => "bincode",
            Medium::Pickle => "pickle",
        }
    }
}

#[derive(Clone, Debug, Serialize, Deserialize, PartialEq)]
pub enum CalChoice {
    Named(String),
    Cal(CalSpec),
    Union(UnionSpec),
}

#[derive(Clone, Debug, Serialize, Deserialize, PartialEq)]
pub enum ObjSpec {
    /// a dual number X and a partner Y created sharing X's variable storage
    Number {
        x: Num,
        partner_value: Fx,
        partner_vars: Vec<(String, Fx)>,
    },
    /// a number built with `clone_from` from caller-owned arrays: arbitrary (also
    /// non-symmetric) second-order block, optionally in a non-standard memory layout
    /// (reversed-stride vector, column-major matrix) - the logical content is what counts
    NumberRaw {
        second_order: bool,
        v: Fx,
        names: Vec<String>,
        dual: Vec<Fx>,
        /// n*n, row-major logical content
        dual2: Vec<Fx>,
        layout: u8,
    },
    /// two independent numbers of one kind whose variable lists collide under naive keying
    /// (e.g. ["a,b","c"] and ["a","b","c"]); both get restarted in the same process
    NumberPair {
        a: Num,
        b: Num,
    },
    Cal(CalSpec),
    Union(UnionSpec),
    Named(String),
    Curve {
        setup: c12::Setup,
        cal: CalChoice,
        queries: Vec<i64>,
    },
    Fx(c10::Setup),
    Spline {
        spec: SplineSpec,
        xs: Vec<Fx>,
    },
    /// a very large object described by its size alone (contents are a fixed function of it):
    /// what 0 = Dual2 with n variables and a full symmetric Hessian, 1 = Dual with n variables,
    /// 2 = Cal with n holidays (UnionCal of `members` such calendars if members > 0),
    /// 3 = PPSplineF64 with n knots, 4 = float Curve with n hourly nodes
    Big { what: u8, n: u64, members: u8 },
    /// a stand-alone setting value: which 0 = Convention, 1 = Modifier, 2 = ADOrder; idx = variant
    Setting { which: u8, idx: u8 },
}

/// (what, n, members): durable states just above 16, 32, 64, 128 and 256 MiB.
pub const BIG_LADDER_QUICK: &[(u8, u64, u8)] = &[(0, 1_500, 0), (0, 2_100, 0), (2, 650_000, 0), (2, 2_600_000, 0)];
pub const BIG_LADDER_THOROUGH: &[(u8, u64, u8)] = &[
    (0, 1_500, 0),
    (0, 2_100, 0),
    (0, 3_000, 0),
    (0, 4_200, 0),
    (0, 6_000, 0),
    (1, 1_000_000, 0),
    (1, 4_000_000, 0),
    (2, 650_000, 0),
    (2, 1_300_000, 0),
    (2, 2_600_000, 0),
    (2, 2_600_000, 2),
    (2, 2_600_000, 4),
    (3, 3_000_000, 0),
    (3, 10_000_000, 0),
    (3, 20_000_000, 0),
    (4, 1_200_000, 0),
    (4, 2_500_000, 0),
];

#[derive(Clone, Debug, Serialize, Deserialize, PartialEq)]
pub enum Op {
    /// crash B, restart it from its durable bytes. `which` = 1 restarts the partner number.
    Restart { medium: Medium, which: u8 },
    SetOrder(u8),
    Update(Vec<c10::Quote>),
    Solve(SolveSpec),
    /// numbers: 0 add, 1 sub, 2 mul, 3 div on (X, Y) in both operand orders and (X, X)
    Combine(u8),
}

#[derive(Clone, Debug, Serialize, Deserialize, PartialEq)]
pub struct Plan {
    pub obj: ObjSpec,
    pub ops: Vec<Op>,
    /// probe dates for calendars (seconds)
    pub probes: Vec<i64>,
    /// exact datetimes (seconds, nanoseconds) asked for membership only: holidays that are
    /// not at midnight, and the same second with another fraction
    #[serde(default)]
    pub probes_exact: Vec<(i64, u32)>,
}

// ------------------------------------------------------------------ generation

fn gen_medium(rng: &mut Rng) -> Medium {
    *rng.pick(&[
        Medium::Json,
        Medium::Tagged,
        Medium::Bincode,
        Medium::Pickle,
    ])
}

fn insert_restarts(rng: &mut Rng, ops: &mut Vec<Op>, partner: bool) {
    let k = rng.usize_in(1, 3);
    for _ in 0..k {
        let pos = match rng.below(4) {
            0 => 0,
            1 => ops.len(),
            _ => rng.usize_in(0, ops.len()),
        };
        let which = if partner && rng.chance(0.3) { 1 } else { 0 };
        ops.insert(
            pos,
            Op::Restart {
                medium: gen_medium(rng),
                which,
            },
        );
        if rng.chance(0.2) {
            // back-to-back generations
            ops.insert(
                pos,
                Op::Restart {
                    medium: gen_medium(rng),
                    which,
                },
            );
        }
    }
}

fn exact_probes(rng: &mut Rng, cals: &[&CalSpec]) -> Vec<(i64, u32)> {
    let mut odd: Vec<(i64, u32)> = cals
        .iter()
        .flat_map(|c| c.holidays.iter().cloned())
        .filter(|(s, n)| s.rem_euclid(DAY) != 0 || *n != 0)
        .collect();
    rng.shuffle(&mut odd);
    odd.truncate(8);
    let mut out = Vec::new();
    for (s, n) in odd {
        out.push((s, n));
        out.push((s, if n == 0 { 500_000_000 } else { 0 }));
        out.push((s - s.rem_euclid(DAY), 0));
    }
    out
}

fn probe_dates(rng: &mut Rng, cals: &[&CalSpec]) -> Vec<i64> {
    let mut out = Vec::new();
    let mut hols: Vec<i64> = cals
        .iter()
        .flat_map(|c| c.holidays.iter().map(|(s, _)| *s - s.rem_euclid(DAY)))
        .collect();
    rng.shuffle(&mut hols);
    for h in hols.iter().take(20) {
        out.push(*h);
        out.push(h - DAY);
        out.push(h + DAY);
    }
    while out.len() < 48 {
        out.push(rng.i64_in(3653, 80000) * DAY);
    }
    out.truncate(64);
    out
}

pub fn generate(rng: &mut Rng, tier: Tier) -> Plan {
    let max_hols = if tier == Tier::Quick { 60 } else { 400 };
    let kind = rng.weighted(&[22, 8, 8, 6, 22, 16, 18, 5, 5]);
    match kind {
        8 => {
            let n = rng.usize_in(1, 4);
            let names = crate::rsx::gen_names(rng, n, "r_");
            let moderate = rng.chance(0.7);
            let f = |r: &mut Rng| {
                if r.chance(0.08) {
                    // stored bytes that begin like some format's header
                    magic_double(r)
                } else if moderate {
                    awkward(r, 1e-3, 1e3, true)
                } else {
                    raw_double(r)
                }
            };
            let dual: Vec<Fx> = (0..n).map(|_| Fx::new(f(rng))).collect();
            let mut dual2: Vec<Fx> = (0..n * n).map(|_| Fx::new(f(rng))).collect();
            // sparsity patterns of a caller-owned block: packed triangles, diagonal, one
            // entry, all zero (of either sign)
            if n >= 2 && rng.chance(0.06) {
                // symmetric but for the last bit of a lower entry / the sign of a zero
                for i in 0..n {
                    for j in 0..i {
                        let u = dual2[j * n + i].get();
                        dual2[i * n + j] = Fx::new(match rng.below(4) {
                            0 => f64::from_bits(u.to_bits().wrapping_add(1)),
                            1 => f64::from_bits(u.to_bits().wrapping_sub(1)),
                            _ => u,
                        });
                    }
                }
                if rng.chance(0.5) {
                    let (i, j) = (rng.usize_in(1, n - 1), 0);
                    dual2[j * n + i] = Fx::new(0.0);
                    dual2[i * n + j] = Fx::new(-0.0);
                }
                for x in dual2.iter_mut() {
                    if !x.get().is_finite() {
                        *x = Fx::new(1.0);
                    }
                }
            } else if rng.chance(0.2) {
                let pat = rng.below(8);
                let one = (rng.below(n as u64) as usize, rng.below(n as u64) as usize);
                for i in 0..n {
                    for j in 0..n {
                        let keep = match pat {
                            0 => i >= j,
                            1 => i > j,
                            2 => i <= j,
                            3 => i < j,
                            4 => i == j,
                            5 => (i, j) == one,
                            _ => false,
                        };
                        if !keep {
                            dual2[i * n + j] = Fx::new(if pat == 7 { -0.0 } else { 0.0 });
                        }
                    }
                }
            }
            let mut ops: Vec<Op> = (0..rng.usize_in(0, 2))
                .map(|_| Op::Combine(rng.below(6) as u8))
                .collect();
            insert_restarts(rng, &mut ops, true);
            Plan {
                obj: ObjSpec::NumberRaw {
                    second_order: rng.chance(0.6),
                    v: Fx::new(f(rng)),
                    names,
                    dual,
                    dual2,
                    layout: rng.below(2) as u8,
                },
                ops,
                probes: vec![],
                probes_exact: vec![],
            }
        }
        7 => {
            // colliding variable lists, both restarted in one process
            let k = 1 + rng.below(2) as u8;
            let simple = ["a", "b", "c", "d", "p", "q"];
            let nv = rng.usize_in(0, 4);
            let mut base: Vec<String> = simple.iter().take(nv).map(|s| s.to_string()).collect();
            rng.shuffle(&mut base);
            let sep = *rng.pick(&[",", "|", " ", ";", ":", "", "\u{1f}", ", ", "\",\""]);
            let sibling: Vec<String> = if base.len() >= 2 {
                let i = rng.usize_in(0, base.len() - 2);
                let mut v = base.clone();
                let merged = format!("{}{}{}", v[i], sep, v[i + 1]);
                v[i] = merged;
                v.remove(i + 1);
                v
            } else if base.is_empty() {
                vec![String::new()]
            } else {
                vec![format!("{}{}", base[0], sep), String::new()]
            };
            let mut f = |r: &mut Rng| awkward(r, 1e-3, 1e3, true);
            let (na, nb) = (base.len(), sibling.len());
            let a = gen_num_with(rng, k, na, base, &mut f);
            let b = gen_num_with(rng, k, nb, sibling, &mut f);
            let (a, b) = if rng.chance(0.5) { (a, b) } else { (b, a) };
            let mut ops: Vec<Op> = Vec::new();
            for _ in 0..rng.usize_in(2, 5) {
                ops.push(Op::Restart {
                    medium: gen_medium(rng),
                    which: rng.below(2) as u8,
                });
                if rng.chance(0.4) {
                    ops.push(Op::Combine(rng.below(3) as u8));
                }
            }
            Plan {
                obj: ObjSpec::NumberPair { a, b },
                ops,
                probes: vec![],
                probes_exact: vec![],
            }
        }
        0 => {
            // numbers
            let k = 1 + rng.below(2) as u8;
            let moderate = rng.chance(0.5);
            // mostly a handful of variables; sometimes many (size thresholds)
            let many = rng.chance(0.06);
            let nv = if many { rng.usize_in(20, 150) } else { rng.usize_in(0, 4) };
            let names = if many {
                (0..nv).map(|i| format!("v{}", i)).collect()
            } else if rng.chance(0.15) {
                hostile_names(rng, nv.max(1))
            } else if rng.chance(0.12) {
                family_names(rng, nv.max(2))
            } else {
                odd_names(rng, nv.max(1))
            };
            let mut f = |r: &mut Rng| {
                if r.chance(0.08) {
                    // stored bytes that begin like some format's header
                    magic_double(r)
                } else if moderate {
                    awkward(r, 1e-3, 1e3, true)
                } else {
                    raw_double(r)
                }
            };
            let x = gen_num_with(rng, k, nv, names.clone(), &mut f);
            let mut pv: Vec<(String, Fx)> = Vec::new();
            for n in names.iter().take(nv) {
                if rng.chance(0.6) {
                    pv.push((n.clone(), Fx::new(f(rng))));
                }
            }
            if rng.chance(0.3) {
                pv.push(("extra_var".into(), Fx::new(f(rng))));
            }
            let mut ops: Vec<Op> = (0..rng.usize_in(1, 4))
                .map(|_| Op::Combine(rng.below(6) as u8))
                .collect();
            insert_restarts(rng, &mut ops, true);
            ops.push(Op::Combine(rng.below(6) as u8));
            Plan {
                obj: ObjSpec::Number {
                    x,
                    partner_value: Fx::new(f(rng)),
                    partner_vars: pv,
                },
                ops,
                probes: vec![],
                probes_exact: vec![],
            }
        }
        1 => {
            let w = rng.below(7) as u8;
            let mut c = gen_cal(rng, w, max_hols);
            if rng.chance(0.03) {
                // closed every day of the week: legal to build, save and compare; the query
                // suite then asks membership questions only
                c.mask = (0..7u8).collect();
                rng.shuffle(&mut c.mask);
            }
            let c = if rng.chance(0.04) {
                builtin_as_spec(*rng.pick(&["tgt", "nyc", "ldn", "fed"])).unwrap_or(c)
            } else {
                c
            };
            let probes = probe_dates(rng, &[&c]);
            let probes_exact = exact_probes(rng, &[&c]);
            let mut ops = vec![];
            insert_restarts(rng, &mut ops, false);
            Plan {
                obj: ObjSpec::Cal(c),
                ops,
                probes,
                probes_exact,
            }
        }
        2 => {
            let mut u = gen_union(rng, max_hols.min(120));
            if rng.chance(0.03) {
                // one leg (business or settlement) that never opens
                let closed: Vec<u8> = (0..7u8).collect();
                if let (Some(s), true) = (u.settle.as_mut(), rng.chance(0.5)) {
                    if let Some(c) = s.first_mut() {
                        c.mask = closed;
                    }
                } else if let Some(c) = u.members.first_mut() {
                    c.mask = closed;
                }
            }
            let all: Vec<&CalSpec> = u
                .members
                .iter()
                .chain(u.settle.iter().flatten())
                .collect();
            let probes = probe_dates(rng, &all);
            let probes_exact = exact_probes(rng, &all);
            let mut ops = vec![];
            insert_restarts(rng, &mut ops, false);
            Plan {
                obj: ObjSpec::Union(u),
                ops,
                probes,
                probes_exact,
            }
        }
        3 => {
            let name = gen_named(rng);
            let probes = probe_dates(rng, &[]);
            let probes_exact = vec![];
            let mut ops = vec![];
            insert_restarts(rng, &mut ops, false);
            Plan {
                obj: ObjSpec::Named(name),
                ops,
                probes,
                probes_exact,
            }
        }
        4 => {
            let base = c12::generate_with(rng, Tier::Quick, true);
            let mut setup = base.setup;
            // arbitrary finite contents for a share of the curves
            if rng.chance(0.4) {
                for n in setup.nodes.iter_mut() {
                    n.num = match &n.num {
                        Num::F(_) => Num::F(Fx::new(raw_double(rng))),
                        other => other.with_value(raw_double(rng)),
                    };
                }
                if setup.index_base.is_some() {
                    setup.index_base = Some(Fx::new(raw_double(rng)));
                }
            } else {
                for n in setup.nodes.iter_mut() {
                    let v = awkward(rng, 0.05, 20.0, false);
                    n.num = n.num.with_value(v);
                }
            }
            // a curve of one node, or of none: accepted by every constructor (such a curve
            // cannot be looked up, but it can be switched, saved and loaded)
            if rng.chance(0.03) {
                setup.nodes.sort_by_key(|n| n.ts);
                setup.nodes.truncate(if rng.chance(0.25) { 0 } else { 1 });
            }
            let cal = match (&setup.ctor, rng.below(3)) {
                // a plain calendar that is an exact copy of a built-in one
                (c12::Ctor::Py { .. }, 0) if rng.chance(0.15) => {
                    match builtin_as_spec(*rng.pick(&["tgt", "nyc", "ldn", "stk", "fed", "bus", "all"])) {
                        Some(spec) => CalChoice::Cal(spec),
                        None => CalChoice::Named("tgt".into()),
                    }
                }
                (c12::Ctor::Py { .. }, 0) => {
                    let w = rng.below(7) as u8;
                    CalChoice::Cal(gen_cal(rng, w, 30))
                }
                (c12::Ctor::Py { .. }, 1) => CalChoice::Union(gen_union(rng, 20)),
                _ => CalChoice::Named(gen_named(rng)),
            };
            let mut ops: Vec<Op> = (0..rng.usize_in(0, 3))
                .map(|_| Op::SetOrder(rng.below(3) as u8))
                .collect();
            insert_restarts(rng, &mut ops, false);
            if rng.chance(0.5) {
                ops.push(Op::SetOrder(rng.below(3) as u8));
            }
            Plan {
                obj: ObjSpec::Curve {
                    setup,
                    cal,
                    queries: base.queries,
                },
                ops,
                probes: vec![],
                probes_exact: vec![],
            }
        }
        5 => {
            let base = c10::generate(rng, Tier::Quick);
            let mut setup = base.setup;
            for q in setup.quotes.iter_mut() {
                let v = awkward(rng, 1e-5, 1e5, false);
                q.num = q.num.with_value(v);
            }
            let mut ops: Vec<Op> = Vec::new();
            for s in base.steps.into_iter().take(8) {
                match s {
                    c10::Step::Update { items, .. } => {
                        let items = items
                            .into_iter()
                            .map(|mut it| {
                                let v = awkward(rng, 1e-5, 1e5, false);
                                it.num = it.num.with_value(v);
                                it
                            })
                            .collect();
                        ops.push(Op::Update(items))
                    }
                    c10::Step::SetOrder { order, .. } => ops.push(Op::SetOrder(order)),
                    c10::Step::Fork | c10::Step::Sibling { .. } => {}
                }
            }
            insert_restarts(rng, &mut ops, false);
            // an update that names a stored pair the other way round (refused; whatever it
            // leaves behind is then saved), followed by a restart and an ordinary update
            if rng.chance(0.15) && !setup.quotes.is_empty() {
                let q = rng.pick(&setup.quotes).clone();
                let inv = c10::Quote {
                    lhs: q.rhs.clone(),
                    rhs: q.lhs.clone(),
                    num: Num::F(Fx::new(awkward(rng, 1e-5, 1e5, false))),
                    settle: q.settle,
                    tod: q.tod,
                };
                ops.push(Op::Update(vec![inv]));
                ops.push(Op::Restart {
                    medium: gen_medium(rng),
                    which: 0,
                });
                if rng.chance(0.5) {
                    let mut again = q.clone();
                    again.num = again.num.with_value(awkward(rng, 1e-5, 1e5, false));
                    ops.push(Op::Update(vec![again]));
                }
            }
            Plan {
                obj: ObjSpec::Fx(setup),
                ops,
                probes: vec![],
                probes_exact: vec![],
            }
        }
        _ => {
            if rng.chance(0.03) {
                // a spline of very high order: it cannot be evaluated in any sensible time
                // (the recursion doubles per order), but it can be built, saved and loaded
                let k = rng.usize_in(19, 70);
                let extra = rng.usize_in(0, 6);
                let mut x = awkward(rng, 0.1, 50.0, true);
                let mut t = vec![x; k];
                for _ in 0..extra {
                    x += awkward(rng, 0.05, 5.0, false);
                    t.push(x);
                }
                x += 1.0;
                t.extend(std::iter::repeat(x).take(k));
                let mut ops: Vec<Op> = Vec::new();
                insert_restarts(rng, &mut ops, false);
                return Plan {
                    obj: ObjSpec::Spline {
                        spec: SplineSpec {
                            kind: rng.below(3) as u8,
                            k,
                            t: t.into_iter().map(Fx::new).collect(),
                            preset: None,
                            preset_share: false,
                        },
                        xs: vec![],
                    },
                    ops,
                    probes: vec![],
                    probes_exact: vec![],
                };
            }
            if rng.chance(0.05) {
                // knot vectors the usual recipes never give: an interior knot repeated more
                // often than the order, or fewer than 2k knots (fewer coefficients than the
                // order) - born with their coefficients, never solved
                let k = rng.usize_in(2, 5);
                let a = awkward(rng, 0.1, 50.0, true);
                let mut t: Vec<f64> = Vec::new();
                if rng.chance(0.5) {
                    t.extend(std::iter::repeat(a).take(k));
                    let mid = a + awkward(rng, 0.05, 5.0, false);
                    t.extend(std::iter::repeat(mid).take(k + rng.usize_in(1, 2)));
                    let end = mid + awkward(rng, 0.05, 5.0, false);
                    t.extend(std::iter::repeat(end).take(k));
                } else {
                    let len = rng.usize_in(k + 1, 2 * k - 1);
                    let mut x = a;
                    for i in 0..len {
                        if i > 0 && rng.chance(0.6) {
                            x += awkward(rng, 0.05, 5.0, false);
                        }
                        t.push(x);
                    }
                }
                let mut spec = SplineSpec {
                    kind: rng.below(3) as u8,
                    k,
                    t: t.into_iter().map(Fx::new).collect(),
                    preset: None,
                    preset_share: false,
                };
                if rng.chance(0.8) {
                    spec.preset = Some(gen_preset(rng, &spec));
                }
                let mut ops: Vec<Op> = Vec::new();
                insert_restarts(rng, &mut ops, false);
                return Plan {
                    obj: ObjSpec::Spline { spec, xs: vec![] },
                    ops,
                    probes: vec![],
                    probes_exact: vec![],
                };
            }
            let mut spec = gen_spline(rng);
            if rng.chance(0.03) {
                // a spline without any B-spline (as many knots as the order), born with its
                // (empty) coefficient vector
                spec.t.truncate(spec.k);
                spec.preset = Some(vec![]);
                let mut ops: Vec<Op> = Vec::new();
                insert_restarts(rng, &mut ops, false);
                let xs = vec![spec.t[0], spec.t[spec.t.len() - 1]];
                return Plan {
                    obj: ObjSpec::Spline { spec, xs },
                    ops,
                    probes: vec![],
                    probes_exact: vec![],
                };
            }
            if rng.chance(0.3) {
                // a spline born with its coefficients
                spec.preset = Some(gen_preset(rng, &spec));
                spec.preset_share = rng.chance(0.5);
            }
            let mut ops: Vec<Op> = Vec::new();
            for _ in 0..rng.usize_in(0, 3) {
                let bad = rng.chance(0.25);
                ops.push(Op::Solve(gen_solve(rng, &spec, bad)));
            }
            insert_restarts(rng, &mut ops, false);
            let t: Vec<f64> = spec.t.iter().map(|x| x.get()).collect();
            let (a, b) = (t[0], t[t.len() - 1]);
            let mut xs: Vec<f64> = t.clone();
            xs.dedup();
            for _ in 0..6 {
                xs.push(a + (b - a) * rng.unit());
            }
            Plan {
                obj: ObjSpec::Spline {
                    spec,
                    xs: xs.into_iter().map(Fx::new).collect(),
                },
                ops,
                probes: vec![],
                probes_exact: vec![],
            }
        }
    }
}

// ------------------------------------------------------------------ live objects

pub enum Spl {
    F(PPSplineF64),
    D(PPSplineDual),
    D2(PPSplineDual2),
}

pub enum Obj {
    Number { x: Number, y: Number },
    Cal(Cal),
    Union(UnionCal),
    Named(NamedCal),
    Curve(c12::Sut),
    Fx(FXRates),
    Spline(Spl),
}

fn herr(s: impl Into<String>) -> Fail {
    Fail::Harness(HarnessError(s.into()))
}

fn build_caltype(c: &CalChoice) -> Result<CalType, Fail> {
    Ok(match c {
        CalChoice::Named(n) => CalType::NamedCal(named(n).map_err(herr)?),
        CalChoice::Cal(s) => CalType::Cal(s.build()),
        CalChoice::Union(u) => CalType::UnionCal(u.build()),
    })
}

fn build_number_pair(
    x: &Num,
    pv: f64,
    pvars: &[(String, Fx)],
) -> Result<(Number, Number), Fail> {
    let xn = x.to_number().map_err(herr)?;
    let names: Vec<String> = pvars.iter().map(|(n, _)| n.clone()).collect();
    let coefs: Vec<f64> = pvars.iter().map(|(_, c)| c.get()).collect();
    let y = match &xn {
        Number::Dual(d) => {
            if names.is_empty() {
                Number::Dual(Dual::new_from(d, pv, vec![]))
            } else {
                Number::Dual(
                    Dual::try_new_from(d, pv, names, coefs).map_err(|_| herr("try_new_from"))?,
                )
            }
        }
        Number::Dual2(d) => {
            if names.is_empty() {
                Number::Dual2(Dual2::new_from(d, pv, vec![]))
            } else {
                Number::Dual2(
                    Dual2::try_new_from(d, pv, names, coefs, vec![])
                        .map_err(|_| herr("try_new_from"))?,
                )
            }
        }
        Number::F64(_) => return Err(herr("number life needs a dual kind")),
    };
    Ok((xn, y))
}

fn build_spline(spec: &SplineSpec) -> Result<Spl, Fail> {
    let t: Vec<f64> = spec.t.iter().map(|x| x.get()).collect();
    if t.len() < 2 || spec.k < 1 || t.len() < spec.k {
        return Err(herr("bad spline spec"));
    }
    use rateslib::dual::Vars;
    let n = t.len() - spec.k;
    if let Some(p) = &spec.preset {
        if p.len() != n {
            return Err(herr("spline preset of the wrong length in plan"));
        }
    }
    Ok(match spec.kind {
        0 => {
            let c = spec
                .preset
                .as_ref()
                .map(|p| p.iter().map(|x| x.value()).collect::<Vec<f64>>());
            Spl::F(hooks::ppspline_f64_wrap(PPSpline::new(spec.k, t, c)))
        }
        1 => {
            let c = match &spec.preset {
                None => None,
                Some(p) => {
                    let mut v: Vec<Dual> = Vec::new();
                    for x in p {
                        v.push(match x {
                            Num::D { v, g } => to_dual(v.get(), g).map_err(herr)?,
                            o => Dual::new(o.value(), vec![]),
                        });
                    }
                    if spec.preset_share && !v.is_empty() {
                        let anchor = v[0].clone();
                        for (i, d) in v.iter_mut().enumerate() {
                            if i % 2 == 0 && i > 0 {
                                *d = d.to_new_vars(anchor.vars(), None);
                            }
                        }
                    }
                    Some(v)
                }
            };
            Spl::D(hooks::ppspline_dual_wrap(PPSpline::new(spec.k, t, c)))
        }
        _ => {
            let c = match &spec.preset {
                None => None,
                Some(p) => {
                    let mut v: Vec<Dual2> = Vec::new();
                    for x in p {
                        v.push(match x {
                            Num::D2 { v, g, h } => to_dual2(v.get(), g, h).map_err(herr)?,
                            o => Dual2::new(o.value(), vec![]),
                        });
                    }
                    if spec.preset_share && !v.is_empty() {
                        let anchor = v[0].clone();
                        for (i, d) in v.iter_mut().enumerate() {
                            if i % 2 == 0 && i > 0 {
                                *d = d.to_new_vars(anchor.vars(), None);
                            }
                        }
                    }
                    Some(v)
                }
            };
            Spl::D2(hooks::ppspline_dual2_wrap(PPSpline::new(spec.k, t, c)))
        }
    })
}

pub fn build_obj(spec: &ObjSpec) -> Result<Obj, Fail> {
    Ok(match spec {
        ObjSpec::Number {
            x,
            partner_value,
            partner_vars,
        } => {
            let (x, y) = build_number_pair(x, partner_value.get(), partner_vars)?;
            Obj::Number { x, y }
        }
        ObjSpec::NumberPair { a, b } => Obj::Number {
            x: a.to_number().map_err(herr)?,
            y: b.to_number().map_err(herr)?,
        },
        ObjSpec::NumberRaw {
            second_order,
            v,
            names,
            dual,
            dual2,
            layout,
        } => {
            use ndarray::{s, Array1, Array2};
            let n = names.len();
            if dual.len() != n || dual2.len() != n * n {
                return Err(herr("NumberRaw: inconsistent lengths in plan"));
            }
            let d: Vec<f64> = dual.iter().map(|x| x.get()).collect();
            let d_arr: Array1<f64> = if *layout == 1 {
                let mut r = d.clone();
                r.reverse();
                Array1::from_vec(r).slice_move(s![..;-1])
            } else {
                Array1::from_vec(d)
            };
            if *second_order {
                let m: Vec<f64> = dual2.iter().map(|x| x.get()).collect();
                let m_arr: Array2<f64> = if *layout == 1 {
                    let mut tr = vec![0.0; n * n];
                    for i in 0..n {
                        for j in 0..n {
                            tr[j * n + i] = m[i * n + j];
                        }
                    }
                    Array2::from_shape_vec((n, n), tr)
                        .map_err(|e| herr(e.to_string()))?
                        .reversed_axes()
                } else {
                    Array2::from_shape_vec((n, n), m).map_err(|e| herr(e.to_string()))?
                };
                let anchor = Dual2::new(0.0, names.clone());
                let x = Dual2::clone_from(&anchor, v.get(), d_arr, m_arr);
                let y = Dual2::new_from(&x, 1.5, vec![]);
                Obj::Number {
                    x: Number::Dual2(x),
                    y: Number::Dual2(y),
                }
            } else {
                let anchor = Dual::new(0.0, names.clone());
                let x = Dual::clone_from(&anchor, v.get(), d_arr);
                let y = Dual::new_from(&x, 1.5, vec![]);
                Obj::Number {
                    x: Number::Dual(x),
                    y: Number::Dual(y),
                }
            }
        }
        ObjSpec::Cal(c) => Obj::Cal(c.build()),
        ObjSpec::Union(u) => Obj::Union(u.build()),
        ObjSpec::Named(n) => Obj::Named(named(n).map_err(herr)?),
        ObjSpec::Curve { setup, cal, .. } => {
            let ct = build_caltype(cal)?;
            let sut = match setup.ctor {
                c12::Ctor::Py { .. } => c12::build_with_cal(setup, Some(ct))?,
                c12::Ctor::Df => c12::build(setup)?,
            };
            Obj::Curve(sut)
        }
        ObjSpec::Fx(setup) => {
            let rates: Vec<FXRate> = setup
                .quotes
                .iter()
                .map(c10::to_fxrate)
                .collect::<Result<_, _>>()?;
            let base = match &setup.base {
                Some(b) => Some(c10::ccy(b)?),
                None => None,
            };
            match FXRates::try_new(rates, base) {
                Ok(f) => Obj::Fx(f),
                Err(_) => return Err(herr("FX setup refused")),
            }
        }
        ObjSpec::Spline { spec, .. } => Obj::Spline(build_spline(spec)?),
        ObjSpec::Big { what, n, members } => build_big(*what, *n as usize, *members as usize)?,
        ObjSpec::Setting { .. } => return Err(herr("settings are executed on their own path")),
    })
}

/// Save / load lives of the field-less setting enums (immutable: no twin is needed).
fn execute_setting(which: u8, idx: u8, ops: &[Op], obs: &mut Obs) -> Result<(), Fail> {
    use rateslib::dual::ADOrder;
    macro_rules! life {
        ($T:ty, $val:expr, $name:expr) => {{
            let orig: $T = $val;
            let mut cur: $T = orig;
            obs.count(&format!("life.{}", $name));
            for (i, op) in ops.iter().enumerate() {
                if let Op::Restart { medium, .. } = op {
                    let mname = medium.name();
                    let loaded: Result<$T, String> = match medium {
                        Medium::Json | Medium::Tagged => serde_json::to_string(&cur)
                            .map_err(|e| e.to_string())
                            .and_then(|t| serde_json::from_str::<$T>(&t).map_err(|e| e.to_string())),
                        Medium::Bincode => bincode::serialize(&cur)
                            .map_err(|e| e.to_string())
                            .and_then(|b| bincode::deserialize::<$T>(&b).map_err(|e| e.to_string())),
                        Medium::Pickle => {
                            let r = call(P, "pickle", || {
                                pyo3::Python::with_gil(|py| -> Result<$T, String> {
                                    use pyo3::prelude::*;
                                    let o = pyo3::Py::new(py, cur).map_err(|e| e.to_string())?.into_any();
                                    let bytes = crate::pyx::dumps(py, o)?;
                                    let any = crate::pyx::loads(py, &bytes)?;
                                    any.extract::<$T>().map_err(|e| e.to_string())
                                })
                            })
                            .map_err(|mut e| {
                                e.signature = format!("{}|{}|{}|load-panics", P, $name, mname);
                                e
                            })?;
                            r
                        }
                    };
                    obs.count(&format!("fault.RESTART_{}", mname.to_uppercase().replace('-', "_")));
                    match loaded {
                        Err(e) => {
                            return Err(v($name, mname, "load-failed", format!("step {}: the object's own saved bytes do not load: {}", i, e)))
                        }
                        Ok(x) => {
                            if x != orig || format!("{:?}", x) != format!("{:?}", orig) {
                                return Err(v(
                                    $name,
                                    mname,
                                    "not-equal-after-restart",
                                    format!("step {}: {:?} came back as {:?}", i, orig, x),
                                ));
                            }
                            cur = x;
                        }
                    }
                }
            }
        }};
    }
    match which {
        0 => life!(rateslib::calendars::Convention, c12::convention_of(idx), "Convention"),
        1 => life!(Modifier, c12::modifier_of(idx), "Modifier"),
        _ => life!(ADOrder, order_of(idx % 3), "ADOrder"),
    }
    Ok(())
}

fn build_big(what: u8, n: usize, members: usize) -> Result<Obj, Fail> {
    Ok(match what {
        0 => {
            let names: Vec<String> = (0..n).map(|i| format!("v{}", i)).collect();
            let dual: Vec<f64> = (0..n).map(|i| 1.0 + 0.5 * (i % 13) as f64).collect();
            let mut h = vec![0.0_f64; n * n];
            for i in 0..n {
                for j in i..n {
                    let x = 0.25 * (((i * 31 + j * 17) % 97) as f64) - 3.0;
                    h[i * n + j] = x;
                    h[j * n + i] = x;
                }
            }
            let x = Dual2::try_new(1.25, names, dual, h).map_err(|_| herr("big Dual2 refused"))?;
            Obj::Number {
                x: Number::Dual2(x),
                y: Number::Dual2(Dual2::new(1.5, vec!["w".to_string()])),
            }
        }
        1 => {
            let names: Vec<String> = (0..n).map(|i| format!("v{}", i)).collect();
            let dual: Vec<f64> = (0..n).map(|i| 1.0 + 0.5 * (i % 13) as f64).collect();
            let x = Dual::try_new(1.25, names, dual).map_err(|_| herr("big Dual refused"))?;
            Obj::Number {
                x: Number::Dual(x),
                y: Number::Dual(Dual::new(1.5, vec!["w".to_string()])),
            }
        }
        2 => {
            // every day except Wednesdays from 0001-01-01 on (2.6 million of them end in year
            // 8306): Python's datetime can hold them all and no closure exceeds six days
            let cal = |offset_secs: i64| -> Cal {
                let hols = (-719_162_i64..)
                    .filter(|d| (d + 3).rem_euclid(7) != 2)
                    .take(n)
                    .map(|d| ts_to_ndt(d * 86_400 + offset_secs))
                    .collect();
                Cal::new(hols, vec![5, 6])
            };
            if members == 0 {
                Obj::Cal(cal(0))
            } else {
                Obj::Union(UnionCal::new((0..members as i64).map(cal).collect(), None))
            }
        }
        3 => {
            let t: Vec<f64> = (0..n).map(|i| i as f64 * 0.5).collect();
            Obj::Spline(Spl::F(hooks::ppspline_f64_wrap(PPSpline::new(4, t, None))))
        }
        _ => {
            let mut m: indexmap::IndexMap<chrono::NaiveDateTime, Number> = indexmap::IndexMap::with_capacity(n);
            for i in 0..n as i64 {
                m.insert(
                    ts_to_ndt(946_684_800 + i * 3_600),
                    Number::F64(1.0 / (1.0 + 1e-7 * i as f64)),
                );
            }
            let c = hooks::VerifCurve::new(
                m,
                "log_linear",
                rateslib::dual::ADOrder::Zero,
                "big",
                c12::convention_of(0),
                c12::modifier_of(0),
                CalType::NamedCal(named("all").map_err(herr)?),
                None,
            )
            .map_err(herr)?;
            Obj::Curve(c12::Sut::Py(c))
        }
    })
}

impl Obj {
    pub fn kind(&self) -> &'static str {
        match self {
            Obj::Number { x, .. } => match x {
                Number::Dual(_) => "Dual",
                Number::Dual2(_) => "Dual2",
                Number::F64(_) => "f64",
            },
            Obj::Cal(_) => "Cal",
            Obj::Union(_) => "UnionCal",
            Obj::Named(_) => "NamedCal",
            Obj::Curve(c12::Sut::Py(_)) => "Curve",
            Obj::Curve(_) => "CurveDF",
            Obj::Fx(_) => "FXRates",
            Obj::Spline(Spl::F(_)) => "PPSplineF64",
            Obj::Spline(Spl::D(_)) => "PPSplineDual",
            Obj::Spline(Spl::D2(_)) => "PPSplineDual2",
        }
    }
}

fn ser_err<E: std::fmt::Display>(e: E) -> String {
    e.to_string()
}

/// Save one part of an object to its durable bytes.
pub fn save(o: &Obj, m: Medium, which: u8) -> Result<Vec<u8>, String> {
    if m == Medium::Pickle {
        return pyo3::Python::with_gil(|py| -> Result<Vec<u8>, String> {
            use pyo3::Py;
            let e = |x: pyo3::PyErr| x.to_string();
            let obj: pyo3::PyObject = match o {
                Obj::Number { x, y } => match if which == 1 { y } else { x } {
                    Number::Dual(d) => Py::new(py, d.clone()).map_err(e)?.into_any(),
                    Number::Dual2(d) => Py::new(py, d.clone()).map_err(e)?.into_any(),
                    Number::F64(_) => return Err("f64 has no durable form of its own".into()),
                },
                Obj::Cal(c) => Py::new(py, c.clone()).map_err(e)?.into_any(),
                Obj::Union(c) => Py::new(py, c.clone()).map_err(e)?.into_any(),
                Obj::Named(c) => Py::new(py, c.clone()).map_err(e)?.into_any(),
                Obj::Fx(f) => Py::new(py, f.clone()).map_err(e)?.into_any(),
                Obj::Curve(c12::Sut::Py(c)) => c.clone().into_py_object(py).map_err(e)?,
                Obj::Curve(_) => return Err("CurveDF is not a Python class".into()),
                Obj::Spline(Spl::F(p)) => Py::new(py, p.clone()).map_err(e)?.into_any(),
                Obj::Spline(Spl::D(p)) => Py::new(py, p.clone()).map_err(e)?.into_any(),
                Obj::Spline(Spl::D2(p)) => Py::new(py, p.clone()).map_err(e)?.into_any(),
            };
            crate::pyx::dumps(py, obj)
        });
    }
    macro_rules! three {
        ($v:expr, $tag:ident) => {
            match m {
                Medium::Json => $v.to_json().map(|s| s.into_bytes()).map_err(ser_err),
                Medium::Tagged => {
                    hooks::to_tagged_json(VerifObj::$tag($v.clone())).map(|s| s.into_bytes())
                }
                Medium::Bincode => bincode::serialize($v).map_err(ser_err),
                Medium::Pickle => unreachable!(),
            }
        };
    }
    macro_rules! three_plain {
        ($v:expr, $tag:ident) => {
            match m {
                Medium::Json => serde_json::to_string($v)
                    .map(|s| s.into_bytes())
                    .map_err(ser_err),
                Medium::Tagged => {
                    hooks::to_tagged_json(VerifObj::$tag($v.clone())).map(|s| s.into_bytes())
                }
                Medium::Bincode => bincode::serialize($v).map_err(ser_err),
                Medium::Pickle => unreachable!(),
            }
        };
    }
    match o {
        Obj::Number { x, y } => {
            let n = if which == 1 { y } else { x };
            match n {
                Number::Dual(d) => three_plain!(d, Dual),
                Number::Dual2(d) => three_plain!(d, Dual2),
                Number::F64(_) => Err("f64 has no durable form of its own".into()),
            }
        }
        Obj::Cal(c) => three!(c, Cal),
        Obj::Union(c) => three!(c, UnionCal),
        Obj::Named(c) => three!(c, NamedCal),
        Obj::Fx(f) => three!(f, FXRates),
        Obj::Curve(c) => match m {
            Medium::Json => c.to_json().map(|s| s.into_bytes()),
            Medium::Tagged => c.to_json_tagged().map(|s| s.into_bytes()),
            Medium::Bincode => c.to_bincode(),
            Medium::Pickle => unreachable!(),
        },
        Obj::Spline(s) => match s {
            Spl::F(p) => three_plain!(p, PPSplineF64),
            Spl::D(p) => three_plain!(p, PPSplineDual),
            Spl::D2(p) => three_plain!(p, PPSplineDual2),
        },
    }
}

/// Load bytes as the same type as (part `which` of) `proto`, returning the object with that
/// part replaced.
pub fn load(proto: &Obj, bytes: &[u8], m: Medium, which: u8) -> Result<Obj, String> {
    if m == Medium::Pickle {
        return pyo3::Python::with_gil(|py| -> Result<Obj, String> {
            use pyo3::prelude::*;
            let any = crate::pyx::loads(py, bytes)?;
            let e = |x: pyo3::PyErr| x.to_string();
            Ok(match proto {
                Obj::Number { x, y } => {
                    let n = if which == 1 { y } else { x };
                    let loaded = match n {
                        Number::Dual(_) => Number::Dual(any.extract::<Dual>().map_err(e)?),
                        Number::Dual2(_) => Number::Dual2(any.extract::<Dual2>().map_err(e)?),
                        Number::F64(_) => return Err("f64 has no durable form".into()),
                    };
                    if which == 1 {
                        Obj::Number {
                            x: x.clone(),
                            y: loaded,
                        }
                    } else {
                        Obj::Number {
                            x: loaded,
                            y: y.clone(),
                        }
                    }
                }
                Obj::Cal(_) => Obj::Cal(any.extract::<Cal>().map_err(e)?),
                Obj::Union(_) => Obj::Union(any.extract::<UnionCal>().map_err(e)?),
                Obj::Named(_) => Obj::Named(any.extract::<NamedCal>().map_err(e)?),
                Obj::Fx(_) => Obj::Fx(any.extract::<FXRates>().map_err(e)?),
                Obj::Curve(c12::Sut::Py(_)) => Obj::Curve(c12::Sut::Py(
                    hooks::VerifCurve::from_py_object(&any).map_err(e)?,
                )),
                Obj::Curve(_) => return Err("CurveDF is not a Python class".into()),
                Obj::Spline(Spl::F(_)) => Obj::Spline(Spl::F(any.extract::<PPSplineF64>().map_err(e)?)),
                Obj::Spline(Spl::D(_)) => Obj::Spline(Spl::D(any.extract::<PPSplineDual>().map_err(e)?)),
                Obj::Spline(Spl::D2(_)) => {
                    Obj::Spline(Spl::D2(any.extract::<PPSplineDual2>().map_err(e)?))
                }
            })
        });
    }
    let text = || std::str::from_utf8(bytes).map_err(|e| e.to_string());
    macro_rules! three {
        ($T:ty, $tag:ident, $direct:expr) => {
            match m {
                Medium::Json => $direct(text()?),
                Medium::Tagged => match hooks::from_tagged_json(text()?)? {
                    VerifObj::$tag(v) => Ok(v),
                    _ => Err("tagged JSON came back as another type".to_string()),
                },
                Medium::Bincode => bincode::deserialize::<$T>(bytes).map_err(ser_err),
                Medium::Pickle => unreachable!(),
            }
        };
    }
    Ok(match proto {
        Obj::Number { x, y } => {
            let n = if which == 1 { y } else { x };
            let loaded = match n {
                Number::Dual(_) => Number::Dual(three!(Dual, Dual, |t: &str| {
                    serde_json::from_str::<Dual>(t).map_err(ser_err)
                })?),
                Number::Dual2(_) => Number::Dual2(three!(Dual2, Dual2, |t: &str| {
                    serde_json::from_str::<Dual2>(t).map_err(ser_err)
                })?),
                Number::F64(_) => return Err("f64 has no durable form".into()),
            };
            if which == 1 {
                Obj::Number {
                    x: x.clone(),
                    y: loaded,
                }
            } else {
                Obj::Number {
                    x: loaded,
                    y: y.clone(),
                }
            }
        }
        Obj::Cal(_) => Obj::Cal(three!(Cal, Cal, |t: &str| Cal::from_json(t).map_err(ser_err))?),
        Obj::Union(_) => Obj::Union(three!(UnionCal, UnionCal, |t: &str| {
            UnionCal::from_json(t).map_err(ser_err)
        })?),
        Obj::Named(_) => Obj::Named(three!(NamedCal, NamedCal, |t: &str| {
            NamedCal::from_json(t).map_err(ser_err)
        })?),
        Obj::Fx(_) => Obj::Fx(three!(FXRates, FXRates, |t: &str| {
            FXRates::from_json(t).map_err(ser_err)
        })?),
        Obj::Curve(c) => Obj::Curve(match m {
            Medium::Json => c.load_json(text()?, false)?,
            Medium::Tagged => c.load_json(text()?, true)?,
            Medium::Bincode => c.load_bincode(bytes)?,
            Medium::Pickle => unreachable!(),
        }),
        Obj::Spline(s) => Obj::Spline(match s {
            Spl::F(_) => Spl::F(three!(PPSplineF64, PPSplineF64, |t: &str| {
                serde_json::from_str::<PPSplineF64>(t).map_err(ser_err)
            })?),
            Spl::D(_) => Spl::D(three!(PPSplineDual, PPSplineDual, |t: &str| {
                serde_json::from_str::<PPSplineDual>(t).map_err(ser_err)
            })?),
            Spl::D2(_) => Spl::D2(three!(PPSplineDual2, PPSplineDual2, |t: &str| {
                serde_json::from_str::<PPSplineDual2>(t).map_err(ser_err)
            })?),
        }),
    })
}

/// `==` of the type.
fn equal(a: &Obj, b: &Obj) -> bool {
    match (a, b) {
        (Obj::Number { x: ax, y: ay }, Obj::Number { x: bx, y: by }) => ax == bx && ay == by,
        (Obj::Cal(a), Obj::Cal(b)) => a == b,
        (Obj::Union(a), Obj::Union(b)) => a == b,
        (Obj::Named(a), Obj::Named(b)) => a == b,
        (Obj::Curve(a), Obj::Curve(b)) => a.equal(b),
        (Obj::Fx(a), Obj::Fx(b)) => a == b,
        (Obj::Spline(Spl::F(a)), Obj::Spline(Spl::F(b))) => a == b,
        (Obj::Spline(Spl::D(a)), Obj::Spline(Spl::D(b))) => a == b,
        (Obj::Spline(Spl::D2(a)), Obj::Spline(Spl::D2(b))) => a == b,
        _ => false,
    }
}

fn dt(h: &mut Fnv, d: &NaiveDateTime) {
    h.u64(d.and_utc().timestamp() as u64);
    h.u64(d.and_utc().timestamp_subsec_nanos() as u64);
}

/// Query suite of a calendar on one date, folded into a digest.
pub fn cal_answers<C: DateRoll>(c: &C, probes: &[i64]) -> Vec<(String, u64)> {
    let mut out = Vec::new();
    let mods = [
        Modifier::Act,
        Modifier::F,
        Modifier::ModF,
        Modifier::P,
        Modifier::ModP,
    ];
    // a calendar (or its settlement side) with no working weekday at all cannot be rolled:
    // only membership questions are asked of it
    let week: Vec<NaiveDateTime> = (0..7).map(|k| ts_to_ndt((20_000 + k) * 86_400)).collect();
    let never_open = !week.iter().any(|d| c.is_weekday(d));
    let never_settles = {
        // is_settlement true on at least one of 14 consecutive far-future days?
        !(0..14)
            .map(|k| ts_to_ndt((3_000_000 + k) * 86_400))
            .any(|d| c.is_settlement(&d) && c.is_weekday(&d))
    };
    for p in probes {
        let d = ts_to_ndt(*p);
        let mut h = Fnv::new();
        h.u64(c.is_weekday(&d) as u64);
        h.u64(c.is_holiday(&d) as u64);
        h.u64(c.is_bus_day(&d) as u64);
        h.u64(c.is_settlement(&d) as u64);
        if never_open || never_settles {
            out.push((format!("calendar membership on {}", d), h.finish()));
            continue;
        }
        for m in &mods {
            for s in [false, true] {
                dt(&mut h, &c.roll(&d, m, s));
            }
        }
        for n in [-3i8, -1, 0, 1, 2, 7] {
            for s in [false, true] {
                dt(&mut h, &c.lag(&d, n, s));
                match c.add_bus_days(&d, n, s) {
                    Ok(x) => dt(&mut h, &x),
                    Err(_) => h.u64(0xE44),
                }
            }
            dt(&mut h, &c.add_days(&d, n, &Modifier::F, true));
        }
        for (mm, roll) in [
            (1, RollDay::Unspecified {}),
            (-13, RollDay::EoM {}),
            (6, RollDay::IMM {}),
            (25, RollDay::Int { day: 30 }),
        ] {
            dt(&mut h, &c.add_months(&d, mm, &Modifier::ModF, &roll, true));
        }
        out.push((format!("calendar queries on {}", d), h.finish()));
    }
    out
}

fn exact_answers<C: DateRoll>(c: &C, probes: &[(i64, u32)], out: &mut Vec<(String, u64)>) {
    for (s, n) in probes {
        let d = match chrono::DateTime::from_timestamp(*s, *n) {
            Some(d) => d.naive_utc(),
            None => continue,
        };
        let mut h = Fnv::new();
        h.u64(c.is_weekday(&d) as u64);
        h.u64(c.is_holiday(&d) as u64);
        h.u64(c.is_bus_day(&d) as u64);
        h.u64(c.is_settlement(&d) as u64);
        out.push((format!("calendar membership at exactly {}", d), h.finish()));
    }
}

fn num_answers(label: &str, n: &Number, out: &mut Vec<(String, u64)>) {
    let s = see(n);
    let mut h = Fnv::new();
    h.u64(s.kind as u64);
    h.f64(s.real);
    for v in &s.vars {
        h.str(v);
    }
    out.push((format!("{}: real and ordered vars", label), h.finish()));
    // gradient for present names in stored order (fast path), reversed, and with absentees
    let stored = s.vars.clone();
    let mut rev = stored.clone();
    rev.reverse();
    let mut mixed = vec!["__absent__".to_string()];
    mixed.extend(rev.iter().cloned());
    mixed.push("__also_absent__".to_string());
    for (tag, names) in [("stored", &stored), ("reversed", &rev), ("with-absent", &mixed)] {
        let mut h = Fnv::new();
        for g in grad_of(n, names) {
            h.f64(g);
        }
        if let Some(hs) = hess_of(n, names) {
            for v in hs {
                h.f64(v);
            }
        }
        out.push((format!("{}: gradient/Hessian by {} names", label, tag), h.finish()));
    }
}

fn finite_number(n: &Number) -> bool {
    let s = see(n);
    if !s.real.is_finite() {
        return false;
    }
    let names = s.vars.clone();
    grad_of(n, &names).iter().all(|x| x.is_finite())
        && hess_of(n, &names)
            .map(|h| h.iter().all(|x| x.is_finite()))
            .unwrap_or(true)
}

fn spline_answers<T>(
    p: &PPSpline<T>,
    xs: &[f64],
    dig: &dyn Fn(&mut Fnv, &T),
    out: &mut Vec<(String, u64)>,
) where
    T: PartialOrd + num_traits::Signed + Clone + std::iter::Sum + num_traits::Zero,
    for<'a> &'a T: std::ops::Sub<&'a T, Output = T>,
    for<'a> &'a f64: std::ops::Mul<&'a T, Output = T>,
{
    let mut h = Fnv::new();
    h.u64(*p.k() as u64);
    h.u64(*p.n() as u64);
    for t in p.t() {
        h.f64(*t);
    }
    match p.c() {
        None => h.u64(0),
        Some(c) => {
            h.u64(c.len() as u64);
            for v in c.iter() {
                dig(&mut h, v);
            }
        }
    }
    out.push(("spline k, n, t, c".to_string(), h.finish()));
    for x in xs {
        for m in 0..=*p.k() {
            let mut h = Fnv::new();
            match p.ppdnev_single(x, m) {
                Ok(v) => dig(&mut h, &v),
                Err(_) => h.u64(0xE44),
            }
            out.push((format!("ppdnev_single(x={:e}, m={})", x, m), h.finish()));
        }
    }
}

/// The query suite of the type: labelled digests of every answer.
fn answers(o: &Obj, plan: &Plan) -> Vec<(String, u64)> {
    let mut out = Vec::new();
    match o {
        Obj::Number { x, y } => {
            num_answers("X", x, &mut out);
            num_answers("Y", y, &mut out);
        }
        Obj::Cal(c) => {
            out = cal_answers(c, &plan.probes);
            exact_answers(c, &plan.probes_exact, &mut out);
        }
        Obj::Union(c) => {
            out = cal_answers(c, &plan.probes);
            exact_answers(c, &plan.probes_exact, &mut out);
        }
        Obj::Named(c) => out = cal_answers(c, &plan.probes),
        Obj::Curve(c) => {
            if let ObjSpec::Big { n, .. } = &plan.obj {
                for q in [0i64, 1, (*n as i64) / 2, *n as i64 - 1] {
                    let d = ts_to_ndt(946_684_800 + q * 3_600 + 1_800);
                    let mut h = Fnv::new();
                    digest_number(&mut h, &c.value(&d));
                    out.push((format!("curve look-up at {}", d), h.finish()));
                }
                if let c12::Sut::Py(pc) = c {
                    let mut h = Fnv::new();
                    for (k, v) in pc.nodes() {
                        h.u64(k.and_utc().timestamp() as u64);
                        digest_number(&mut h, &v);
                    }
                    out.push(("all curve nodes".into(), h.finish()));
                }
            }
            if let ObjSpec::Curve { setup, queries, .. } = &plan.obj {
                if setup.interp == "null" || setup.nodes.len() < 2 {
                    // no look-up is possible: the nodes, and the index value before the first node
                    if setup.nodes.len() < 2 {
                        let mut h = Fnv::new();
                        h.u64(order_num(c.ad()) as u64);
                        out.push(("curve ad order".into(), h.finish()));
                        if let c12::Sut::Py(pc) = c {
                            let mut h = Fnv::new();
                            for (k, v) in pc.nodes() {
                                h.u64(k.and_utc().timestamp() as u64);
                                digest_number(&mut h, &v);
                            }
                            out.push(("all curve nodes".into(), h.finish()));
                        }
                        if let Some(first) = setup.nodes.first().map(|n| n.ts) {
                            let d = ts_to_ndt(first - 86_400);
                            let mut h = Fnv::new();
                            match c.index_value(&d) {
                                Ok(n) => digest_number(&mut h, &n),
                                Err(_) => h.u64(0xE44),
                            }
                            out.push((format!("index value before the only node at {}", d), h.finish()));
                        }
                        return out;
                    }
                    let first = setup.nodes.iter().map(|n| n.ts).min().unwrap_or(0);
                    if let c12::Sut::Py(pc) = c {
                        let mut h = Fnv::new();
                        for (k, v) in pc.nodes() {
                            h.u64(k.and_utc().timestamp() as u64);
                            digest_number(&mut h, &v);
                        }
                        out.push(("all curve nodes".into(), h.finish()));
                    }
                    for q in queries.iter().filter(|q| **q < first) {
                        let d = ts_to_ndt(*q);
                        let mut h = Fnv::new();
                        match c.index_value(&d) {
                            Ok(n) => digest_number(&mut h, &n),
                            Err(_) => h.u64(0xE44),
                        }
                        out.push((format!("index value before the first node at {}", d), h.finish()));
                    }
                    let mut h = Fnv::new();
                    h.u64(order_num(c.ad()) as u64);
                    out.push(("curve ad order".into(), h.finish()));
                    return out;
                }
                for q in queries {
                    let d = ts_to_ndt(*q);
                    let mut h = Fnv::new();
                    digest_number(&mut h, &c.value(&d));
                    match c.index_value(&d) {
                        Ok(n) => digest_number(&mut h, &n),
                        Err(_) => h.u64(0xE44),
                    }
                    out.push((format!("curve look-up and index value at {}", d), h.finish()));
                }
                let mut h = Fnv::new();
                h.u64(order_num(c.ad()) as u64);
                out.push(("curve ad order".into(), h.finish()));
            }
        }
        Obj::Fx(f) => {
            if let ObjSpec::Fx(setup) = &plan.obj {
                let mut names: Vec<String> = Vec::new();
                if let Some(b) = &setup.base {
                    names.push(b.clone());
                }
                for q in &setup.quotes {
                    for c in [&q.lhs, &q.rhs] {
                        if !names.contains(c) {
                            names.push(c.clone());
                        }
                    }
                }
                for a in &names {
                    for b in &names {
                        let mut h = Fnv::new();
                        let (ca, cb) = (
                            rateslib::fx::rates::Ccy::try_new(a).unwrap(),
                            rateslib::fx::rates::Ccy::try_new(b).unwrap(),
                        );
                        match f.rate(&ca, &cb) {
                            Some(n) => digest_number(&mut h, &n),
                            None => h.u64(0xdead),
                        }
                        out.push((format!("rate {}{}", a, b), h.finish()));
                    }
                }
            }
        }
        Obj::Spline(s) => {
            if let ObjSpec::Spline { xs, .. } = &plan.obj {
                let xs: Vec<f64> = xs.iter().map(|x| x.get()).collect();
                match s {
                    Spl::F(p) => spline_answers(
                        hooks::ppspline_f64_inner(p),
                        &xs,
                        &|h, v| h.f64(*v),
                        &mut out,
                    ),
                    Spl::D(p) => spline_answers(
                        hooks::ppspline_dual_inner(p),
                        &xs,
                        &|h, v| digest_number(h, &Number::Dual(v.clone())),
                        &mut out,
                    ),
                    Spl::D2(p) => spline_answers(
                        hooks::ppspline_dual2_inner(p),
                        &xs,
                        &|h, v| digest_number(h, &Number::Dual2(v.clone())),
                        &mut out,
                    ),
                }
                // abscissae that are themselves dual numbers: one with a variable of its own
                // and one living on the variable storage of the spline's first coefficient
                use rateslib::dual::Vars;
                let push = |out: &mut Vec<(String, u64)>, label: String, r: Result<Number, ()>| {
                    let mut h = Fnv::new();
                    match r {
                        Ok(n) => digest_number(&mut h, &n),
                        Err(()) => h.u64(0xE44),
                    }
                    out.push((label, h.finish()));
                };
                for x in xs.iter().take(4) {
                    match s {
                        Spl::F(p) => {
                            let p = hooks::ppspline_f64_inner(p);
                            for m in 0..=(*p.k()).min(2) {
                                let xd = Dual::try_new(*x, vec!["q_x".into()], vec![0.75]).unwrap();
                                push(&mut out, format!("ppdnev_single_dual(x={:e} own variable, m={})", x, m),
                                    p.ppdnev_single_dual(&xd, m).map(Number::Dual).map_err(|_| ()));
                                let xd2 = Dual2::try_new(*x, vec!["q_x".into()], vec![0.75], vec![0.5]).unwrap();
                                push(&mut out, format!("ppdnev_single_dual2(x={:e} own variable, m={})", x, m),
                                    p.ppdnev_single_dual2(&xd2, m).map(Number::Dual2).map_err(|_| ()));
                            }
                        }
                        Spl::D(p) => {
                            let p = hooks::ppspline_dual_inner(p);
                            for m in 0..=(*p.k()).min(2) {
                                let xd = Dual::try_new(*x, vec!["q_x".into()], vec![0.75]).unwrap();
                                push(&mut out, format!("ppdnev_single_dual(x={:e} own variable, m={})", x, m),
                                    p.ppdnev_single_dual(&xd, m).map(Number::Dual).map_err(|_| ()));
                                if let Some(c0) = p.c().as_ref().and_then(|c| c.iter().next()) {
                                    let n = c0.vars().len();
                                    let xs_ = Dual::clone_from(c0, *x, ndarray::Array1::from_elem(n, 0.75));
                                    push(&mut out, format!("ppdnev_single_dual(x={:e} on the first coefficient's variables, m={})", x, m),
                                        p.ppdnev_single_dual(&xs_, m).map(Number::Dual).map_err(|_| ()));
                                }
                            }
                        }
                        Spl::D2(p) => {
                            let p = hooks::ppspline_dual2_inner(p);
                            for m in 0..=(*p.k()).min(2) {
                                let xd2 = Dual2::try_new(*x, vec!["q_x".into()], vec![0.75], vec![0.5]).unwrap();
                                push(&mut out, format!("ppdnev_single_dual2(x={:e} own variable, m={})", x, m),
                                    p.ppdnev_single_dual2(&xd2, m).map(Number::Dual2).map_err(|_| ()));
                                if let Some(c0) = p.c().as_ref().and_then(|c| c.iter().next()) {
                                    let n = c0.vars().len();
                                    let xs_ = Dual2::clone_from(
                                        c0,
                                        *x,
                                        ndarray::Array1::from_elem(n, 0.75),
                                        ndarray::Array2::from_elem((n, n), 0.25),
                                    );
                                    push(&mut out, format!("ppdnev_single_dual2(x={:e} on the first coefficient's variables, m={})", x, m),
                                        p.ppdnev_single_dual2(&xs_, m).map(Number::Dual2).map_err(|_| ()));
                                }
                            }
                        }
                    }
                }
            }
        }
    }
    out
}

fn fx_values(f: &FXRates, setup: &c10::Setup) -> Vec<f64> {
    let mut names: Vec<String> = Vec::new();
    if let Some(b) = &setup.base {
        names.push(b.clone());
    }
    for q in &setup.quotes {
        for c in [&q.lhs, &q.rhs] {
            if !names.contains(c) {
                names.push(c.clone());
            }
        }
    }
    let mut out = Vec::new();
    for a in &names {
        for b in &names {
            let (ca, cb) = (
                rateslib::fx::rates::Ccy::try_new(a).unwrap(),
                rateslib::fx::rates::Ccy::try_new(b).unwrap(),
            );
            out.push(f.rate(&ca, &cb).map(|n| see(&n).real).unwrap_or(f64::NAN));
        }
    }
    out
}

/// Make saved text independent of the per-process hash order of `Cal.week_mask`.
pub fn canonical_text(bytes: &[u8]) -> Vec<u8> {
    let s = match std::str::from_utf8(bytes) {
        Ok(s) => s,
        Err(_) => return bytes.to_vec(),
    };
    let key = "\"week_mask\":[";
    let mut out = String::with_capacity(s.len());
    let mut rest = s;
    while let Some(i) = rest.find(key) {
        let (head, tail) = rest.split_at(i + key.len());
        out.push_str(head);
        match tail.find(']') {
            Some(j) => {
                let mut items: Vec<&str> = if j == 0 {
                    vec![]
                } else {
                    tail[..j].split(',').collect()
                };
                items.sort();
                out.push_str(&items.join(","));
                rest = &tail[j..];
            }
            None => {
                rest = tail;
                break;
            }
        }
    }
    out.push_str(rest);
    out.into_bytes()
}

/// Can every datetime of the object be handed to Python (years 1..9999)?
fn python_representable(spec: &ObjSpec) -> bool {
    const LO: i64 = -719_162 * 86_400; // 0001-01-01
    const HI: i64 = 2_932_896 * 86_400 + 86_399; // 9999-12-31
    let cal_ok = |c: &CalSpec| c.holidays.iter().all(|(s, _)| *s >= LO && *s <= HI);
    let union_ok = |u: &UnionSpec| {
        u.members.iter().all(cal_ok) && u.settle.iter().flatten().all(cal_ok)
    };
    match spec {
        ObjSpec::Cal(c) => cal_ok(c),
        ObjSpec::Union(u) => union_ok(u),
        ObjSpec::Curve { setup, cal, .. } => {
            setup.nodes.iter().all(|n| n.ts >= LO && n.ts <= HI)
                && match cal {
                    CalChoice::Cal(c) => cal_ok(c),
                    CalChoice::Union(u) => union_ok(u),
                    CalChoice::Named(_) => true,
                }
        }
        ObjSpec::Fx(setup) => setup
            .quotes
            .iter()
            .all(|q| q.settle.map(|d| (-719_162..=2_932_896).contains(&d)).unwrap_or(true)),
        _ => true,
    }
}

/// ... and of the operations that follow (FX updates carry settlement dates too)?
fn python_representable_ops(ops: &[Op]) -> bool {
    ops.iter().all(|o| match o {
        Op::Update(items) => items
            .iter()
            .all(|q| q.settle.map(|d| (-719_162..=2_932_896).contains(&d)).unwrap_or(true)),
        _ => true,
    })
}

fn contains_hash_ordered_bytes(o: &Obj) -> bool {
    // bincode of a Cal writes week_mask in per-process hash order; JSON is canonicalised.
    matches!(o, Obj::Cal(_) | Obj::Union(_) | Obj::Curve(c12::Sut::Py(_)))
}

// ------------------------------------------------------------------ execution

fn v(kind: &str, medium: &str, class: &str, msg: String) -> Fail {
    Fail::Violation(Violation::new(
        P,
        format!("{}|{}|{}|{}", P, kind, medium, class),
        msg,
    ))
}

enum Outcome {
    Ok,
    Err,
    Skipped,
    Panicked(String),
}

impl Outcome {
    fn tag(&self) -> String {
        match self {
            Outcome::Ok => "ok".into(),
            Outcome::Err => "err".into(),
            Outcome::Skipped => "skipped".into(),
            Outcome::Panicked(s) => format!("panic:{}", s),
        }
    }
}

fn apply_op(o: &mut Obj, op: &Op, results: &mut Vec<(String, u64)>) -> Outcome {
    let r = guard(|| match (o, op) {
        (Obj::Curve(c), Op::SetOrder(k)) => match c.set_order(order_of(*k)) {
            Ok(()) => Outcome::Ok,
            Err(()) => Outcome::Err,
        },
        (Obj::Fx(f), Op::SetOrder(k)) => match f.set_ad_order(order_of(*k)) {
            Ok(()) => Outcome::Ok,
            Err(_) => Outcome::Err,
        },
        (Obj::Fx(f), Op::Update(items)) => {
            let rs: Result<Vec<FXRate>, Fail> = items.iter().map(c10::to_fxrate).collect();
            match rs {
                Ok(rs) => match f.update(rs) {
                    Ok(()) => Outcome::Ok,
                    Err(_) => Outcome::Err,
                },
                Err(_) => Outcome::Skipped,
            }
        }
        (Obj::Spline(s), Op::Solve(sp)) => {
            let tau: Vec<f64> = sp.tau.iter().map(|x| x.get()).collect();
            macro_rules! solve {
                ($p:expr, $conv:expr) => {{
                    let y: Result<Vec<_>, String> = sp.y.iter().map($conv).collect();
                    match y {
                        Ok(y) => match $p.csolve(&tau, &y, sp.left_n, sp.right_n, sp.allow_lsq) {
                            Ok(()) => Outcome::Ok,
                            Err(_) => Outcome::Err,
                        },
                        Err(_) => Outcome::Skipped,
                    }
                }};
            }
            match s {
                Spl::F(p) => solve!(hooks::ppspline_f64_inner_mut(p), |n: &Num| Ok::<f64, String>(
                    n.value()
                )),
                Spl::D(p) => solve!(hooks::ppspline_dual_inner_mut(p), |n: &Num| match n {
                    Num::D { v, g } => to_dual(v.get(), g),
                    other => Ok(Dual::new(other.value(), vec![])),
                }),
                Spl::D2(p) => solve!(hooks::ppspline_dual2_inner_mut(p), |n: &Num| match n {
                    Num::D2 { v, g, h } => to_dual2(v.get(), g, h),
                    other => Ok(Dual2::new(other.value(), vec![])),
                }),
            }
        }
        (Obj::Number { x, y }, Op::Combine(code)) => {
            let f = |a: &Number, b: &Number| -> Number {
                match code {
                    0 => a + b,
                    1 => a - b,
                    2 => a * b,
                    4 => a % b,
                    _ => a / b,
                }
            };
            // re-expressing one number on the other's variable list (what every binary
            // operation does first), asked for directly
            if *code == 5 {
                use rateslib::dual::Vars;
                let relinked: Vec<(&str, Option<Number>)> = match (x, y) {
                    (Number::Dual(a), Number::Dual(b)) => vec![
                        ("X on Y's variables", Some(Number::Dual(a.to_new_vars(b.vars(), None)))),
                        ("Y on X's variables", Some(Number::Dual(b.to_new_vars(a.vars(), None)))),
                        ("union, X part", Some(Number::Dual(a.to_union_vars(b, None).0))),
                        ("union, Y part", Some(Number::Dual(b.to_union_vars(a, None).0))),
                    ],
                    (Number::Dual2(a), Number::Dual2(b)) => vec![
                        ("X on Y's variables", Some(Number::Dual2(a.to_new_vars(b.vars(), None)))),
                        ("Y on X's variables", Some(Number::Dual2(b.to_new_vars(a.vars(), None)))),
                        ("union, X part", Some(Number::Dual2(a.to_union_vars(b, None).0))),
                        ("union, Y part", Some(Number::Dual2(b.to_union_vars(a, None).0))),
                    ],
                    _ => vec![],
                };
                for (label, r) in relinked {
                    if let Some(r) = r {
                        let mut h = Fnv::new();
                        digest_number(&mut h, &r);
                        results.push((label.to_string(), h.finish()));
                    }
                }
                return Outcome::Ok;
            }
            for (label, r) in [("X op Y", f(x, y)), ("Y op X", f(y, x)), ("X op X", f(x, x))] {
                if finite_number(&r) {
                    let mut h = Fnv::new();
                    digest_number(&mut h, &r);
                    results.push((format!("{} (op {})", label, code), h.finish()));
                } else {
                    results.push((format!("{} (op {}) non-finite", label, code), 0));
                }
            }
            Outcome::Ok
        }
        _ => Outcome::Skipped,
    });
    match r {
        Ok(o) => o,
        Err(p) => Outcome::Panicked(p.stem()),
    }
}

fn state_is_finite(o: &Obj) -> bool {
    fn fin<T>(p: &PPSpline<T>, f: &dyn Fn(&T) -> bool) -> bool {
        p.c().as_ref().map(|c| c.iter().all(f)).unwrap_or(true)
    }
    match o {
        Obj::Spline(Spl::F(p)) => fin(hooks::ppspline_f64_inner(p), &|v| v.is_finite()),
        Obj::Spline(Spl::D(p)) => fin(hooks::ppspline_dual_inner(p), &|v| {
            finite_number(&Number::Dual(v.clone()))
        }),
        Obj::Spline(Spl::D2(p)) => fin(hooks::ppspline_dual2_inner(p), &|v| {
            finite_number(&Number::Dual2(v.clone()))
        }),
        _ => true,
    }
}

fn compare_answers(
    a: &Obj,
    b: &Obj,
    plan: &Plan,
    medium: &str,
    class: &str,
    when: &str,
) -> Result<u64, Fail> {
    let kind = a.kind();
    let ra = call(P, "query-suite(A)", || answers(a, plan))?;
    let rb = call(P, "query-suite(B)", || answers(b, plan)).map_err(|mut e| {
        e.signature = format!("{}|{}|{}|query-panics-after-restart", P, kind, medium);
        e
    })?;
    if ra.len() != rb.len() {
        return Err(herr("query suites of different length"));
    }
    let mut h = Fnv::new();
    for ((la, da), (_, db)) in ra.iter().zip(rb.iter()) {
        h.u64(*da);
        if da != db {
            return Err(v(
                kind,
                medium,
                class,
                format!(
                    "{}: the restarted object answers differently from its twin that never restarted: {}",
                    when, la
                ),
            ));
        }
    }
    Ok(h.finish())
}

pub fn execute(plan: &Plan, obs: &mut Obs) -> Result<(), Fail> {
    if let ObjSpec::Setting { which, idx } = &plan.obj {
        return execute_setting(*which, *idx, &plan.ops, obs);
    }
    let mut a = build_obj(&plan.obj)?;
    let mut b = build_obj(&plan.obj)?;
    let kind = a.kind();
    obs.count(&format!("life.{}", kind));
    let d0 = compare_answers(&a, &b, plan, "none", "twins-differ-before-any-restart", "at construction")
        .map_err(|f| match f {
            // twins built from the same recipe must agree, otherwise the harness is wrong
            Fail::Violation(vv) => herr(format!("twin construction not deterministic: {}", vv.message)),
            other => other,
        })?;
    obs.event("construct", d0);
    let mut generation = 0u32;
    let mut stage = "fresh";
    for (i, op) in plan.ops.iter().enumerate() {
        match op {
            Op::Restart { medium, which } => {
                let which = if matches!(a, Obj::Number { .. }) { *which } else { 0 };
                // Python's pickle applies to the extension classes only, and Python's datetime
                // spans years 1..9999: otherwise the binary state is exercised directly
                let medium = &if *medium == Medium::Pickle
                    && (matches!(&b, Obj::Curve(c) if !matches!(c, c12::Sut::Py(_)))
                        || !python_representable(&plan.obj)
                        || !python_representable_ops(&plan.ops))
                {
                    obs.count("restart.pickle_downgraded_to_bincode");
                    Medium::Bincode
                } else {
                    *medium
                };
                let binary = *medium == Medium::Bincode || *medium == Medium::Pickle;
                let mname = medium.name();
                let bytes1 = match call(P, "save", || save(&b, *medium, which))
                    .map_err(|mut e| {
                        e.signature = format!("{}|{}|{}|save-panics", P, kind, mname);
                        e
                    })? {
                    Ok(x) => x,
                    Err(e) => {
                        return Err(v(kind, mname, "save-failed", format!("step {}: saving failed: {}", i, e)))
                    }
                };
                // crash: every live handle of B is dropped; only the bytes survive
                let loaded = match call(P, "load", || load(&b, &bytes1, *medium, which)).map_err(
                    |mut e| {
                        e.signature = format!("{}|{}|{}|load-panics", P, kind, mname);
                        e
                    },
                )? {
                    Ok(x) => x,
                    Err(e) => {
                        return Err(v(
                            kind,
                            mname,
                            "load-failed",
                            format!("step {}: the object's own saved bytes do not load: {}", i, e),
                        ))
                    }
                };
                b = loaded;
                generation += 1;
                obs.count(&format!("fault.RESTART_{}", mname.to_uppercase().replace('-', "_")));
                obs.count(&format!("restart.{}.{}", kind, stage));
                if generation > 1 {
                    obs.count("reach.multi_generation_restart");
                }
                // FX: the matrix is rebuilt at first order; rates must agree in A's state,
                // then A is switched to first order and the two compared there.
                if let (Obj::Fx(fa), Obj::Fx(fb), ObjSpec::Fx(setup)) = (&mut a, &b, &plan.obj) {
                    let va = fx_values(fa, setup);
                    let vb = fx_values(fb, setup);
                    for (x, y) in va.iter().zip(vb.iter()) {
                        if !(crate::refad::Em { x: *x, m: 64.0 * x.abs() }).close(*y) {
                            return Err(v(
                                kind,
                                mname,
                                "rates-differ-after-restart",
                                format!("step {}: a rate is {:e} before and {:e} after the restart", i, x, y),
                            ));
                        }
                    }
                    // "compared in that state": the never-restarted twin is switched to the
                    // default first order through the public API, nothing else.
                    let at_one = matches!(
                        fa.rate(
                            &rateslib::fx::rates::Ccy::try_new(&setup.quotes[0].lhs).unwrap(),
                            &rateslib::fx::rates::Ccy::try_new(&setup.quotes[0].rhs).unwrap()
                        ),
                        Some(Number::Dual(_))
                    );
                    if !at_one {
                        let r1 =
                            call(P, "FXRates::set_ad_order", || fa.set_ad_order(order_of(1)))?;
                        if r1.is_err() {
                            return Err(herr("set_ad_order on twin A failed"));
                        }
                        obs.count("reach.fx_restart_from_non_default_order");
                    }
                }
                let eq = call(P, "==", || equal(&a, &b)).map_err(|mut e| {
                    e.signature = format!("{}|{}|{}|eq-panics", P, kind, mname);
                    e
                })?;
                if !eq {
                    if std::env::var("VERIF_DEBUG").is_ok() {
                        if let (Obj::Fx(fa), Obj::Fx(fb)) = (&a, &b) {
                            eprintln!("A = {:?}\nB = {:?}", fa, fb);
                        }
                    }
                    return Err(v(
                        kind,
                        mname,
                        "not-equal-after-restart",
                        format!(
                            "step {}: the restarted {} does not compare equal (==) to its twin that never restarted",
                            i, kind
                        ),
                    ));
                }
                let d = compare_answers(
                    &a,
                    &b,
                    plan,
                    mname,
                    "answers-differ-after-restart",
                    &format!("step {} (restart via {})", i, mname),
                )?;
                // second generation bytes == first generation bytes
                let bytes2 = match call(P, "save", || save(&b, *medium, which))? {
                    Ok(x) => x,
                    Err(e) => return Err(v(kind, mname, "save-failed", format!("re-saving failed: {}", e))),
                };
                // pickle bytes also embed the constructor arguments (`__getnewargs__`), which
                // may legitimately differ in memory-order details: only the object is compared
                let comparable = *medium != Medium::Pickle
                    && (!binary || !contains_hash_ordered_bytes(&b));
                if comparable {
                    let (c1, c2) = if binary {
                        (bytes1.clone(), bytes2.clone())
                    } else {
                        (canonical_text(&bytes1), canonical_text(&bytes2))
                    };
                    if c1 != c2 {
                        return Err(v(
                            kind,
                            mname,
                            "second-generation-bytes-differ",
                            format!(
                                "step {}: saving the restarted object gives different bytes from the ones it was loaded from",
                                i
                            ),
                        ));
                    }
                    obs.count("probe.second_generation_bytes_equal");
                }
                let mut h = Fnv::new();
                h.u64(d);
                h.bytes(&if binary && !comparable {
                    vec![]
                } else if binary {
                    bytes1.clone()
                } else {
                    canonical_text(&bytes1)
                });
                obs.event(&format!("restart-{}", mname), h.finish());
                let mut sh = Fnv::new();
                sh.str(kind);
                sh.str(stage);
                sh.str(mname);
                sh.u64(generation.min(4) as u64);
                obs.state(sh.finish());
                stage = "after-restart";
            }
            other => {
                let mut ra = Vec::new();
                let mut rb = Vec::new();
                let oa = apply_op(&mut a, other, &mut ra);
                if let Outcome::Panicked(_) = oa {
                    // the never-restarted twin cannot take this operation: not a durability
                    // question; the life ends here.
                    obs.count("life.ended_by_panic_on_twin_A");
                    return Ok(());
                }
                let ob = apply_op(&mut b, other, &mut rb);
                let (ta, tb) = (oa.tag(), ob.tag());
                if let Outcome::Skipped = oa {
                    continue;
                }
                obs.count(&format!("op.{}.{}", kind, ta));
                if ta != tb {
                    return Err(v(
                        kind,
                        "any",
                        "diverged-after-restart",
                        format!(
                            "step {}: the same operation ended '{}' on the twin that never restarted and '{}' on the restarted one",
                            i, ta, tb
                        ),
                    ));
                }
                for ((la, da), (_, db)) in ra.iter().zip(rb.iter()) {
                    if da != db {
                        return Err(v(
                            kind,
                            "any",
                            "arithmetic-differs-after-restart",
                            format!("step {}: {} gives a different result once an operand has been restarted", i, la),
                        ));
                    }
                }
                if !state_is_finite(&a) {
                    // non-finite contents are outside the property ("all finite contents")
                    obs.count("life.ended_by_nonfinite_state");
                    return Ok(());
                }
                if generation > 0 {
                    let eq = call(P, "==", || equal(&a, &b))?;
                    if !eq {
                        return Err(v(
                            kind,
                            "any",
                            "diverged-after-restart",
                            format!("step {}: after the same operation the twins no longer compare equal", i),
                        ));
                    }
                    let d = compare_answers(
                        &a,
                        &b,
                        plan,
                        "any",
                        "diverged-after-restart",
                        &format!("step {} (operation after a restart)", i),
                    )?;
                    obs.event("op-after-restart", d);
                    if matches!(ob, Outcome::Err) {
                        obs.count("reach.refused_operation_after_restart");
                    }
                }
                stage = match oa {
                    Outcome::Err => "after-refusal",
                    _ => "after-op",
                };

                if let (Obj::Spline(_), Outcome::Ok) = (&a, &oa) {
                    obs.count("reach.spline_solved");
                }
            }
        }
    }
    Ok(())
}

// ------------------------------------------------------------------ shrinking

pub fn shrink(plan: &Plan) -> Vec<Plan> {
    let mut out = Vec::new();
    for i in (0..plan.ops.len()).rev() {
        let mut p = plan.clone();
        p.ops.remove(i);
        out.push(p);
    }
    // simpler medium
    for (i, op) in plan.ops.iter().enumerate() {
        if let Op::Restart { medium, which } = op {
            if *which != 0 {
                let mut p = plan.clone();
                p.ops[i] = Op::Restart {
                    medium: *medium,
                    which: 0,
                };
                out.push(p);
            }
        }
    }
    if plan.probes.len() > 1 {
        for i in 0..plan.probes.len() {
            let mut p = plan.clone();
            p.probes = vec![plan.probes[i]];
            out.push(p);
        }
    }
    match &plan.obj {
        ObjSpec::Number {
            x,
            partner_value,
            partner_vars,
        } => {
            if !partner_vars.is_empty() {
                let mut p = plan.clone();
                p.obj = ObjSpec::Number {
                    x: x.clone(),
                    partner_value: *partner_value,
                    partner_vars: vec![],
                };
                out.push(p);
            }
            let variants: Vec<Num> = match x {
                Num::D { v, g } => {
                    let mut vs = Vec::new();
                    for i in 0..g.len() {
                        let mut g2 = g.clone();
                        g2.remove(i);
                        vs.push(Num::D { v: *v, g: g2 });
                    }
                    for c in c10::simpler_values(v.get()) {
                        vs.push(Num::D {
                            v: Fx::new(c),
                            g: g.clone(),
                        });
                    }
                    for i in 0..g.len() {
                        for c in c10::simpler_values(g[i].1.get()) {
                            let mut g2 = g.clone();
                            g2[i].1 = Fx::new(c);
                            vs.push(Num::D { v: *v, g: g2 });
                        }
                        if g[i].0 != "x" && !g.iter().any(|(n, _)| n == "x") {
                            let mut g2 = g.clone();
                            g2[i].0 = "x".into();
                            vs.push(Num::D { v: *v, g: g2 });
                        }
                    }
                    vs
                }
                Num::D2 { v, g, h } => {
                    let mut vs = Vec::new();
                    vs.push(Num::D {
                        v: *v,
                        g: g.clone(),
                    });
                    for i in 0..h.len() {
                        let mut h2 = h.clone();
                        h2.remove(i);
                        vs.push(Num::D2 {
                            v: *v,
                            g: g.clone(),
                            h: h2,
                        });
                    }
                    if g.len() > 1 {
                        // drop the last variable and Hessian entries that mention it
                        let last = g.len() - 1;
                        let mut g2 = g.clone();
                        g2.pop();
                        let h2 = h
                            .iter()
                            .filter(|(i, j, _)| *i != last && *j != last)
                            .cloned()
                            .collect();
                        vs.push(Num::D2 {
                            v: *v,
                            g: g2,
                            h: h2,
                        });
                    }
                    for c in c10::simpler_values(v.get()) {
                        vs.push(Num::D2 {
                            v: Fx::new(c),
                            g: g.clone(),
                            h: h.clone(),
                        });
                    }
                    for i in 0..g.len() {
                        for c in c10::simpler_values(g[i].1.get()) {
                            let mut g2 = g.clone();
                            g2[i].1 = Fx::new(c);
                            vs.push(Num::D2 {
                                v: *v,
                                g: g2,
                                h: h.clone(),
                            });
                        }
                    }
                    for i in 0..h.len() {
                        for c in c10::simpler_values(h[i].2.get()) {
                            let mut h2 = h.clone();
                            h2[i].2 = Fx::new(c);
                            vs.push(Num::D2 {
                                v: *v,
                                g: g.clone(),
                                h: h2,
                            });
                        }
                    }
                    vs
                }
                Num::F(_) => vec![],
            };
            for nx in variants {
                let mut p = plan.clone();
                // partner variables must stay a subset-compatible list: drop them if the
                // kind changed
                let pv = if nx.kind() == x.kind() {
                    partner_vars.clone()
                } else {
                    vec![]
                };
                p.obj = ObjSpec::Number {
                    x: nx,
                    partner_value: *partner_value,
                    partner_vars: pv,
                };
                out.push(p);
            }
            for c in c10::simpler_values(partner_value.get()) {
                let mut p = plan.clone();
                p.obj = ObjSpec::Number {
                    x: x.clone(),
                    partner_value: Fx::new(c),
                    partner_vars: partner_vars.clone(),
                };
                out.push(p);
            }
        }
        ObjSpec::NumberRaw {
            second_order,
            v,
            names,
            dual,
            dual2,
            layout,
        } => {
            if *layout != 0 {
                let mut p = plan.clone();
                p.obj = ObjSpec::NumberRaw {
                    second_order: *second_order,
                    v: *v,
                    names: names.clone(),
                    dual: dual.clone(),
                    dual2: dual2.clone(),
                    layout: 0,
                };
                out.push(p);
            }
            if names.len() > 1 {
                // drop the last variable
                let n = names.len();
                let mut d2 = Vec::new();
                for i in 0..n - 1 {
                    for j in 0..n - 1 {
                        d2.push(dual2[i * n + j]);
                    }
                }
                let mut p = plan.clone();
                p.obj = ObjSpec::NumberRaw {
                    second_order: *second_order,
                    v: *v,
                    names: names[..n - 1].to_vec(),
                    dual: dual[..n - 1].to_vec(),
                    dual2: d2,
                    layout: *layout,
                };
                out.push(p);
            }
        }
        ObjSpec::NumberPair { a, b } => {
            for (first, n) in [(true, a), (false, b)] {
                for c in c10::simpler_values(n.value()) {
                    let mut p = plan.clone();
                    p.obj = if first {
                        ObjSpec::NumberPair {
                            a: n.with_value(c),
                            b: b.clone(),
                        }
                    } else {
                        ObjSpec::NumberPair {
                            a: a.clone(),
                            b: n.with_value(c),
                        }
                    };
                    out.push(p);
                }
            }
        }
        ObjSpec::Cal(c) => {
            for c2 in shrink_cal(c) {
                let mut p = plan.clone();
                p.obj = ObjSpec::Cal(c2);
                out.push(p);
            }
        }
        ObjSpec::Union(u) => {
            for i in 0..u.members.len() {
                let mut u2 = u.clone();
                u2.members.remove(i);
                let mut p = plan.clone();
                p.obj = ObjSpec::Union(u2);
                out.push(p);
            }
            if u.settle.is_some() {
                let mut u2 = u.clone();
                u2.settle = None;
                let mut p = plan.clone();
                p.obj = ObjSpec::Union(u2);
                out.push(p);
            }
            if let Some(s) = &u.settle {
                for i in 0..s.len() {
                    let mut u2 = u.clone();
                    u2.settle.as_mut().unwrap().remove(i);
                    let mut p = plan.clone();
                    p.obj = ObjSpec::Union(u2);
                    out.push(p);
                }
            }
            for (i, m) in u.members.iter().enumerate() {
                for c2 in shrink_cal(m) {
                    let mut u2 = u.clone();
                    u2.members[i] = c2;
                    let mut p = plan.clone();
                    p.obj = ObjSpec::Union(u2);
                    out.push(p);
                }
            }
        }
        ObjSpec::Named(n) => {
            if n != "bus" {
                let mut p = plan.clone();
                p.obj = ObjSpec::Named("bus".into());
                out.push(p);
            }
            let lower = n.to_lowercase();
            if &lower != n {
                let mut p = plan.clone();
                p.obj = ObjSpec::Named(lower);
                out.push(p);
            }
        }
        ObjSpec::Curve {
            setup,
            cal,
            queries,
        } => {
            if *cal != CalChoice::Named("all".into()) {
                let mut p = plan.clone();
                p.obj = ObjSpec::Curve {
                    setup: setup.clone(),
                    cal: CalChoice::Named("all".into()),
                    queries: queries.clone(),
                };
                out.push(p);
            }
            if queries.len() > 1 {
                for q in queries {
                    let mut p = plan.clone();
                    p.obj = ObjSpec::Curve {
                        setup: setup.clone(),
                        cal: cal.clone(),
                        queries: vec![*q],
                    };
                    out.push(p);
                }
            }
            let inner = c12::Plan {
                setup: setup.clone(),
                history: c12::History::Sequence(vec![]),
                queries: queries.clone(),
                query_ns: vec![],
                sibling: false,
                silent_detours: false,
            };
            for cand in c12::shrink(&inner) {
                if cand.history != c12::History::Sequence(vec![]) {
                    continue;
                }
                let mut p = plan.clone();
                p.obj = ObjSpec::Curve {
                    setup: cand.setup,
                    cal: cal.clone(),
                    queries: cand.queries,
                };
                out.push(p);
            }
        }
        ObjSpec::Fx(setup) => {
            let inner = c10::Plan {
                setup: setup.clone(),
                steps: vec![],
            };
            for cand in c10::shrink(&inner) {
                let mut p = plan.clone();
                p.obj = ObjSpec::Fx(cand.setup);
                out.push(p);
            }
        }
        ObjSpec::Spline { spec, xs } => {
            if xs.len() > 1 {
                for x in xs {
                    let mut p = plan.clone();
                    p.obj = ObjSpec::Spline {
                        spec: spec.clone(),
                        xs: vec![*x],
                    };
                    out.push(p);
                }
            }
            if spec.kind > 0 {
                let mut s2 = spec.clone();
                s2.kind = 0;
                let mut p = plan.clone();
                p.obj = ObjSpec::Spline {
                    spec: s2,
                    xs: xs.clone(),
                };
                out.push(p);
            }
        }
        ObjSpec::Setting { .. } => {}
        ObjSpec::Big { what, n, members } => {
            // smaller by halves, then by a tenth: the minimiser stops just above the threshold
            for nn in [*n / 2, *n * 3 / 4, *n * 9 / 10, *n * 99 / 100] {
                if nn >= 1 && nn < *n {
                    let mut p = plan.clone();
                    p.obj = ObjSpec::Big {
                        what: *what,
                        n: nn,
                        members: *members,
                    };
                    out.push(p);
                }
            }
            if *members > 0 {
                let mut p = plan.clone();
                p.obj = ObjSpec::Big {
                    what: *what,
                    n: *n,
                    members: *members - 1,
                };
                out.push(p);
            }
        }
    }
    out
}

fn shrink_cal(c: &CalSpec) -> Vec<CalSpec> {
    let mut out = Vec::new();
    if c.holidays.len() > 1 {
        let mut c2 = c.clone();
        c2.holidays.truncate(c.holidays.len() / 2);
        out.push(c2);
        let mut c2 = c.clone();
        c2.holidays = c.holidays[c.holidays.len() / 2..].to_vec();
        out.push(c2);
    }
    if c.holidays.len() <= 8 {
        for i in 0..c.holidays.len() {
            let mut c2 = c.clone();
            c2.holidays.remove(i);
            out.push(c2);
        }
    }
    for i in 0..c.mask.len() {
        let mut c2 = c.clone();
        c2.mask.remove(i);
        out.push(c2);
    }
    out
}

pub struct C16;

impl Scenario for C16 {
    type Plan = Plan;
    const ID: &'static str = "C16";
    const LEVEL: &'static str = "exploration";

    fn units(tier: Tier) -> u64 {
        match tier {
            Tier::Quick => 10_000,
            Tier::Thorough => 150_000,
        }
    }
    fn unit(seed: u64, tier: Tier, unit: u64, sink: &mut dyn FnMut(Plan) -> bool) {
        // the size ladder: a fixed handful of very large objects, spread over the unit range
        // (and so over the workers); each is pickled, or saved in the binary state directly
        let ladder = match tier {
            Tier::Quick => BIG_LADDER_QUICK,
            Tier::Thorough => BIG_LADDER_THOROUGH,
        };
        let stride = (Self::units(tier) / 17).max(1);
        if unit % stride == 11 && ((unit / stride) as usize) < ladder.len() {
            let (what, n, members) = ladder[(unit / stride) as usize];
            let medium = if mix(seed, "C16-big", unit) % 4 == 0 {
                Medium::Bincode
            } else {
                Medium::Pickle
            };
            sink(Plan {
                obj: ObjSpec::Big { what, n, members },
                ops: vec![Op::Restart { medium, which: 0 }],
                probes: vec![946_684_800, 946_684_800 + 86_400 * 3, 4_102_444_800],
                probes_exact: vec![],
            });
            return;
        }
        // every setting value through every medium (a fixed, complete sweep)
        if unit % stride == 5 && unit / stride < 3 {
            let which = (unit / stride) as u8;
            let n = [11u8, 5, 3][which as usize];
            for idx in 0..n {
                for medium in [Medium::Json, Medium::Bincode, Medium::Pickle] {
                    sink(Plan {
                        obj: ObjSpec::Setting { which, idx },
                        ops: vec![Op::Restart { medium, which: 0 }, Op::Restart { medium, which: 0 }],
                        probes: vec![],
                        probes_exact: vec![],
                    });
                }
            }
            return;
        }
        let mut rng = Rng::new(mix(seed, "C16", unit));
        sink(generate(&mut rng, tier));
    }
    fn execute(plan: &Plan, obs: &mut Obs) -> Result<(), Fail> {
        execute(plan, obs)
    }
    fn shrink(plan: &Plan) -> Vec<Plan> {
        shrink(plan)
    }
    fn nontrivial(plan: &Plan) -> bool {
        plan.ops.iter().any(|o| matches!(o, Op::Restart { .. }))
    }
    fn budget(plan: &Plan) -> u64 {
        match &plan.obj {
            ObjSpec::Big { .. } => 60,
            _ => 1,
        }
    }
    fn label(plan: &Plan) -> String {
        match &plan.obj {
            ObjSpec::Number { .. } => "life:number",
            ObjSpec::NumberPair { .. } => "life:number-pair",
            ObjSpec::NumberRaw { .. } => "life:number-raw",
            ObjSpec::Cal(_) => "life:Cal",
            ObjSpec::Union(_) => "life:UnionCal",
            ObjSpec::Named(_) => "life:NamedCal",
            ObjSpec::Curve { .. } => "life:Curve",
            ObjSpec::Fx(_) => "life:FXRates",
            ObjSpec::Spline { .. } => "life:PPSpline",
            ObjSpec::Big { .. } => "life:very-large-object",
            ObjSpec::Setting { .. } => "life:setting-enum",
        }
        .into()
    }
    fn rule() -> String {
        "one evaluation = one seeded object life (Dual/Dual2 with a storage-sharing partner; Cal; UnionCal; NamedCal; CurveDF x 5 rules and the Python-facing Curve with Cal/UnionCal/NamedCal calendars; FXRates with the C10 history alphabet; PPSpline f64/Dual/Dual2 unsolved, solved, re-solved, with refused solves) run on twin objects, with 1-6 crash-and-restart events (save -> drop every handle -> load; media JSON, tagged JSON, bincode, and Python's pickle on the extension classes in an embedded interpreter) injected at seeded points including immediately after construction, after a refused operation, and back-to-back. After each restart: load succeeds, B == A, the type's whole query suite is bit-identical, re-saved bytes equal the loaded bytes; afterwards both twins receive the rest of the life and are compared after every step. Contents are drawn from a mixture dominated by uniformly random finite bit patterns. Distinct = distinct plan digest; non-trivial = the life contains at least one restart.".into()
    }
    fn assumptions() -> Vec<String> {
        vec![
            "finite doubles only; distinct variable names per number; calendars leave at least one working weekday".into(),
            "FX quotes are positive (awkward full-mantissa doubles in 1e-5..1e5); FX markets are compared after switching the never-restarted twin to first order, and their rates are compared within 64 eps before that (as the property states)".into(),
            "bincode bytes of objects containing a Cal are not compared between generations (HashSet order differs per process); JSON text is compared after sorting week_mask arrays".into(),
            "arithmetic cross-checks are skipped when a result is not finite".into(),
            "the twin that never restarts is the oracle: an operation that panics on it ends the life without a verdict".into(),
            "the size ladder (fixed very large objects with binary states just above 16/32/64/128/256 MiB) goes through pickle and bincode only; JSON of such objects is not produced".into(),
        ]
    }
    fn extra_coverage(_tier: Tier) -> serde_json::Value {
        serde_json::json!({ "state_abstraction": "(object type, life stage in {fresh, after-op, after-refusal, after-restart}, medium, restart generation capped at 4)" })
    }
    fn components() -> serde_json::Value {
        serde_json::json!({
            "real": ["serde_json / bincode (de)serialisation of every rateslib type", "JSON trait, tagged DeserializedObj container (via verif-hooks)", "rebuild-on-load data models (NamedCal, FXRates)", "PartialEq of every type", "every query used by the suites (calendar arithmetic, curve look-ups, FX rates, spline evaluation, gradient read-back)"],
            "real_python": ["pickle.dumps / pickle.loads in an embedded interpreter drive the real __getnewargs__, __getstate__, #[new] constructors and __setstate__ of Dual, Dual2, Cal, UnionCal, NamedCal, FXRates, Curve, PPSplineF64/Dual/Dual2"],
            "stub": ["the storage medium is an in-memory byte vector (no file system)", "all other Python methods are not executed"],
            "model": ["twin object that never restarts"]
        })
    }
}

/// Apply a life operation to a single object (used by the C20 document generator).
pub fn apply_op_pub(o: &mut Obj, op: &Op, results: &mut Vec<(String, u64)>) {
    let _ = apply_op(o, op, results);
}
