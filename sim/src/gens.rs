//! Seeded generators shared by the restart (C16) and storage-fault (C20) scenarios:
//! awkward doubles, awkward names, calendar recipes, spline recipes.

use crate::core::Fx;
use crate::rng::Rng;
use crate::rsx::Num;
use rateslib::calendars::{Cal, NamedCal, UnionCal};
use serde::{Deserialize, Serialize};

/// Any finite double, from a mixture that stresses text round-tripping.
/// Doubles that are special to some representation: exactly single-precision values that
/// are not short decimals, powers of two, epsilons, signed zeros, extremes.
pub const SPECIAL_DOUBLES: &[f64] = &[
    0.1_f32 as f64,
    0.99_f32 as f64,
    1.1_f32 as f64,
    9.5367431640625e-7, // 2^-20
    4294967296.0,       // 2^32
    9007199254740992.0, // 2^53
    f64::EPSILON,
    f64::MIN_POSITIVE,
    5e-324,
    0.0,
    -0.0,
    1.0,
    -1.0,
    0.5,
    f64::MAX,
    f64::MIN,
    16777217.0, // 2^24 + 1: not an f32
    0.30000000000000004,
];

/// Byte strings by which software recognises a format (compression and archive headers,
/// pickle protocol markers, byte-order marks, JSON openers). A double whose stored bytes
/// begin with one of them is an ordinary finite double.
pub const MAGIC_PREFIXES: &[&[u8]] = &[
    &[0x78, 0x9c], &[0x78, 0x01], &[0x78, 0xda], &[0x78, 0x5e], &[0x1f, 0x8b], &[0x1f, 0x8b, 0x08],
    &[0x28, 0xb5, 0x2f, 0xfd], &[0x04, 0x22, 0x4d, 0x18], &[0x42, 0x5a, 0x68], &[0xfd, 0x37, 0x7a, 0x58, 0x5a, 0x00],
    &[0x80, 0x02], &[0x80, 0x03], &[0x80, 0x04], &[0x80, 0x05], &[0xef, 0xbb, 0xbf], &[0xff, 0xfe], &[0xfe, 0xff],
    &[0x7b], &[0x5b], &[0x22], &[0x7b, 0x22], &[0x50, 0x4b, 0x03, 0x04], &[0x89, 0x50, 0x4e, 0x47], &[0x00, 0x00, 0x00, 0x00],
    &[0xff, 0xff, 0xff, 0xff], &[0x0a], &[0x0d, 0x0a], &[0x4e, 0x61, 0x4e], &[0x6e, 0x75, 0x6c, 0x6c],
];

/// A finite double whose little-endian (as stored by bincode) or big-endian bytes begin with
/// a format's magic prefix; the remaining bits are random.
pub fn magic_double(rng: &mut Rng) -> f64 {
    loop {
        let m = *rng.pick(MAGIC_PREFIXES);
        let mut b = rng.next_u64().to_le_bytes();
        // keep the exponent ordinary when the prefix does not cover it
        let e = (0x3ff0_u64 + rng.below(64) - 32) << 48;
        b[6] = (e >> 48) as u8;
        b[7] = (e >> 56) as u8 | if rng.chance(0.3) { 0x80 } else { 0 };
        let v = if rng.chance(0.75) {
            for (i, x) in m.iter().enumerate() {
                b[i] = *x;
            }
            f64::from_le_bytes(b)
        } else {
            let mut be = b;
            be.reverse();
            for (i, x) in m.iter().enumerate() {
                be[i] = *x;
            }
            f64::from_be_bytes(be)
        };
        if v.is_finite() {
            return v;
        }
    }
}

pub fn raw_double(rng: &mut Rng) -> f64 {
    if rng.chance(0.06) {
        return *rng.pick(SPECIAL_DOUBLES);
    }
    if rng.chance(0.04) {
        return magic_double(rng);
    }
    loop {
        let v = match rng.below(20) {
            0..=9 => f64::from_bits(rng.next_u64()),
            10 | 11 => {
                // 17 significant digits
                let mant = rng.below(9_000_000_000_000_000) + 1_000_000_000_000_000;
                let exp = rng.i64_in(-40, 40);
                format!("{}.{}e{}", mant / 1_000_000_000_000_000, mant % 1_000_000_000_000_000, exp)
                    .parse::<f64>()
                    .unwrap()
            }
            12 | 13 => (rng.i64_in(-99999, 99999) as f64) / 100.0,
            14 => (rng.i64_in(1, 1 << 30) as f64) * 9007199254740993.0,
            15 => 2f64.powi(rng.i64_in(-1000, 1000) as i32),
            16 => f64::from_bits(rng.below(1 << 52)), // subnormal
            17 => {
                if rng.chance(0.5) {
                    0.0
                } else {
                    -0.0
                }
            }
            18 => f64::MAX * (1.0 - rng.unit() * 1e-3),
            _ => -f64::from_bits(rng.next_u64() & 0x7FEF_FFFF_FFFF_FFFF),
        };
        if v.is_finite() {
            return v;
        }
    }
}

/// A double with a fully random mantissa and magnitude in [lo, hi] (lo > 0), random sign opt.
pub fn awkward(rng: &mut Rng, lo: f64, hi: f64, signed: bool) -> f64 {
    if rng.chance(0.05) {
        // a special value that lies in the requested range
        let c: Vec<f64> = SPECIAL_DOUBLES
            .iter()
            .cloned()
            .filter(|v| v.abs() >= lo && v.abs() <= hi && (signed || *v > 0.0))
            .collect();
        if !c.is_empty() {
            return *rng.pick(&c);
        }
    }
    let mag = rng.log_uniform(lo, hi);
    // randomise all low mantissa bits
    let bits = (mag.to_bits() & 0xFFFF_F000_0000_0000) | (rng.next_u64() & 0x0000_0FFF_FFFF_FFFF);
    let v = f64::from_bits(bits);
    if signed && rng.chance(0.4) {
        -v
    } else {
        v
    }
}

pub const ODD_NAMES: &[&str] = &[
    "", " ", "x", "y", "é", "x\"y", "a b", "back\\slash", "名前", "\u{1F600}", "fx_eurusd",
    "tab\there", "new\nline", "very_long_variable_name_0123456789_abcdefghijklmnopqrstuvwxyz",
    "0", "-1", "null", "{\"a\":1}", "v0", "v1", "v2", "v3", "a,b", "a", "b", "a|b", ",", "x,y",
    "東京証券取引所の休日カレンダーの名前です", "€€€€€€€€€€€€€€€€€€€€",
    // hostile to naive text processing of the saved form
    "desk\\", "NaN", "NaN_guard", "Infinity", "-Infinity", "nan", "true", "false", "\"", "\\\"", "{", "}", "[",
    "]", ":", "\\", "\\\\", "/*", "//", "\u{0}", "\u{7f}", "\u{feff}",
];

/// Names that are hostile to naive text processing of the saved form.
pub const HOSTILE_NAMES: &[&str] = &[
    "desk\\", "NaN", "NaN_guard", "Infinity", "-Infinity", "nan", "null", "true", "false", "\"", "\\\"",
    "{", "}", "[", "]", ":", ",", "\\", "\\\\", "a\\", "b\\\"c", "Infinity\\",
];

pub fn hostile_names(rng: &mut Rng, count: usize) -> Vec<String> {
    let mut idx: Vec<usize> = (0..HOSTILE_NAMES.len()).collect();
    rng.shuffle(&mut idx);
    idx.into_iter()
        .take(count)
        .map(|i| HOSTILE_NAMES[i].to_string())
        .collect()
}


/// Names that form a numbered family: a stem followed by a running number, written
/// canonically or not (zero-padded, with a plus sign, starting at 1, in reverse order).
pub fn family_names(rng: &mut Rng, count: usize) -> Vec<String> {
    let stem = *rng.pick(&["n", "x", "", "v_", "crv", "fx_eurusd", "a1b", "0"]);
    let style = rng.below(6);
    let mut out: Vec<String> = (0..count)
        .map(|i| match style {
            0 => format!("{}{}", stem, i),
            1 => format!("{}{:02}", stem, i),
            2 => format!("{}{:03}", stem, i),
            3 => format!("{}+{}", stem, i),
            4 => format!("{}{}", stem, i + 1),
            _ => format!("{}{}", stem, if i == 1 { "01".to_string() } else { i.to_string() }),
        })
        .collect();
    if rng.chance(0.2) {
        out.reverse();
    }
    out
}

pub fn odd_names(rng: &mut Rng, count: usize) -> Vec<String> {
    let mut idx: Vec<usize> = (0..ODD_NAMES.len()).collect();
    rng.shuffle(&mut idx);
    idx.into_iter()
        .take(count)
        .map(|i| ODD_NAMES[i].to_string())
        .collect()
}

/// A dual-number recipe of `kind` with `nv` variables; doubles from `f`.
pub fn gen_num_with(
    rng: &mut Rng,
    kind: u8,
    nv: usize,
    names: Vec<String>,
    f: &mut dyn FnMut(&mut Rng) -> f64,
) -> Num {
    let v = f(rng);
    match kind {
        0 => Num::F(Fx::new(v)),
        1 => Num::D {
            v: Fx::new(v),
            g: names.into_iter().take(nv).map(|n| (n, Fx::new(f(rng)))).collect(),
        },
        _ => {
            let g: Vec<(String, Fx)> = names
                .into_iter()
                .take(nv)
                .map(|n| (n, Fx::new(f(rng))))
                .collect();
            let n = g.len();
            let mut h = Vec::new();
            for i in 0..n {
                for j in i..n {
                    if rng.chance(0.7) {
                        h.push((i, j, Fx::new(f(rng))));
                    }
                }
            }
            Num::D2 { v: Fx::new(v), g, h }
        }
    }
}

// ------------------------------------------------------------------ calendars

#[derive(Clone, Debug, Serialize, Deserialize, PartialEq)]
pub struct CalSpec {
    /// holidays as (seconds since epoch, nanoseconds)
    pub holidays: Vec<(i64, u32)>,
    /// masked weekdays 0=Mon..6=Sun
    pub mask: Vec<u8>,
}

impl CalSpec {
    pub fn build(&self) -> Cal {
        let hols = self
            .holidays
            .iter()
            .map(|(s, n)| {
                chrono::DateTime::from_timestamp(*s, *n)
                    .expect("holiday timestamp in range")
                    .naive_utc()
            })
            .collect();
        Cal::new(hols, self.mask.clone())
    }
}

pub const DAY: i64 = 86_400;

/// `working_day` (0..6) is never masked, so that at least one weekday works in any union.
pub fn gen_cal(rng: &mut Rng, working_day: u8, max_hols: usize) -> CalSpec {
    let mut mask: Vec<u8> = Vec::new();
    match rng.below(4) {
        0 => mask = vec![5, 6],
        1 => {}
        _ => {
            for d in 0..7u8 {
                if d != working_day && rng.chance(0.35) {
                    mask.push(d);
                }
            }
        }
    }
    mask.retain(|d| *d != working_day);
    rng.shuffle(&mut mask);
    let nh = match rng.below(4) {
        0 => 0,
        1 => rng.usize_in(1, 5),
        2 => rng.usize_in(6, 40.min(max_hols.max(6))),
        _ => rng.usize_in(1, max_hols.max(1)),
    };
    let mut holidays = Vec::new();
    // mostly 2000-2055; sometimes anywhere chrono can represent comfortably, including
    // years beyond 9999 and before the common era
    let mut day = match rng.below(30) {
        0 => rng.i64_in(2_932_897, 6_000_000), // years 10000..18000
        1 => rng.i64_in(-2_500_000, -719_163), // years -4800..0
        2 => rng.i64_in(-719_162, 2_932_000),  // years 1..9999
        _ => rng.i64_in(10957, 20000),
    };
    // rarely: a calendar with more holidays than fit a 16-bit count
    let nh = if max_hols >= 60 && rng.chance(0.01) {
        rng.usize_in(65_530, 70_000)
    } else {
        nh
    };
    let huge = nh > 60_000;
    for _ in 0..nh {
        day += if huge {
            1
        } else {
            match rng.below(5) {
                0 | 1 => 1, // runs of consecutive holidays
                2 => rng.i64_in(2, 9),
                _ => rng.i64_in(10, 400),
            }
        };
        let (secs, nanos) = if rng.chance(0.04) {
            (rng.i64_in(1, DAY - 1), if rng.chance(0.3) { rng.below(1_000_000_000) as u32 } else { 0 })
        } else {
            (0, 0)
        };
        holidays.push((day * DAY + secs, nanos));
    }
    // two holidays inside one second (same second, another fraction)
    if !huge && !holidays.is_empty() && rng.chance(0.06) {
        let (s0, n0) = *rng.pick(&holidays);
        let twin = (s0, if n0 == 0 { *rng.pick(&[500_000_000u32, 1, 999_999_999]) } else { 0 });
        if !holidays.contains(&twin) {
            holidays.push(twin);
        }
    }
    rng.shuffle(&mut holidays);
    CalSpec { holidays, mask }
}

#[derive(Clone, Debug, Serialize, Deserialize, PartialEq)]
pub struct UnionSpec {
    pub members: Vec<CalSpec>,
    pub settle: Option<Vec<CalSpec>>,
}

impl UnionSpec {
    pub fn build(&self) -> UnionCal {
        UnionCal::new(
            self.members.iter().map(|c| c.build()).collect(),
            self.settle
                .as_ref()
                .map(|v| v.iter().map(|c| c.build()).collect()),
        )
    }
}

pub fn gen_union(rng: &mut Rng, max_hols: usize) -> UnionSpec {
    let w = rng.below(7) as u8;
    let nm = if rng.chance(0.05) {
        rng.usize_in(4, 12)
    } else {
        rng.usize_in(0, 3)
    };
    let mut members: Vec<CalSpec> = (0..nm).map(|_| gen_cal(rng, w, max_hols)).collect();
    let mut settle: Option<Vec<CalSpec>> = match rng.below(3) {
        0 => None,
        1 => Some(vec![]),
        _ => Some((0..rng.usize_in(1, 2)).map(|_| gen_cal(rng, w, max_hols)).collect()),
    };
    // coincidences between the parts of a union: the same calendar twice among the members,
    // a settlement calendar identical to a member, one holiday shared by two members, two
    // members' holidays within one second of each other (same second, other fraction)
    if !members.is_empty() && rng.chance(0.15) {
        let src = rng.pick(&members).clone();
        match rng.below(4) {
            0 => members.push(src),
            1 => match &mut settle {
                Some(v) => v.push(src),
                None => settle = Some(vec![src]),
            },
            2 => {
                if let Some(h) = src.holidays.first().cloned() {
                    let k = rng.below(members.len() as u64) as usize;
                    if !members[k].holidays.contains(&h) {
                        members[k].holidays.push(h);
                    }
                }
            }
            _ => {
                if let Some((secs, nanos)) = src.holidays.first().cloned() {
                    let other = (secs, if nanos == 0 { 500_000_000 } else { 0 });
                    let k = rng.below(members.len() as u64) as usize;
                    if !members[k].holidays.contains(&other) {
                        members[k].holidays.push(other);
                    }
                    match &mut settle {
                        Some(v) if !v.is_empty() && rng.chance(0.3) => v[0].holidays.push(other),
                        _ => {}
                    }
                }
            }
        }
    }
    UnionSpec { members, settle }
}

pub const CAL_NAMES: &[&str] = &[
    "all", "bus", "nyc", "fed", "tgt", "ldn", "stk", "osl", "zur", "tro", "tyo", "syd", "wlg",
    "mum",
];

/// The holidays and week mask of a built-in named calendar as an explicit calendar recipe
/// (an exact copy of the built-in, held as a plain `Cal`).
pub fn builtin_as_spec(name: &str) -> Option<CalSpec> {
    use rateslib::json::JSON;
    let cal = rateslib::calendars::get_calendar_by_name(name).ok()?;
    let text = cal.to_json().ok()?;
    let v: serde_json::Value = serde_json::from_str(&text).ok()?;
    let hols = v.get("holidays")?.as_array()?;
    let mut holidays = Vec::new();
    for h in hols {
        let d = chrono::NaiveDateTime::parse_from_str(h.as_str()?, "%Y-%m-%dT%H:%M:%S").ok()?;
        holidays.push((d.and_utc().timestamp(), 0u32));
    }
    let mut mask = Vec::new();
    for m in v.get("week_mask")?.as_array()? {
        mask.push(match m.as_str()? {
            "Mon" => 0u8,
            "Tue" => 1,
            "Wed" => 2,
            "Thu" => 3,
            "Fri" => 4,
            "Sat" => 5,
            _ => 6,
        });
    }
    mask.sort();
    Some(CalSpec { holidays, mask })
}

pub fn gen_named(rng: &mut Rng) -> String {
    let part = |rng: &mut Rng| -> String {
        // mostly 1..3 names; sometimes a long list (repeats allowed: "tgt,tgt" is legal)
        let k = if rng.chance(0.08) {
            rng.usize_in(4, 14)
        } else {
            rng.usize_in(1, 3)
        };
        let mut v = Vec::new();
        for _ in 0..k {
            let n = rng.pick(CAL_NAMES).to_string();
            let n = match rng.below(5) {
                // the Kelvin sign lower-cases to 'k'
                4 if n.contains('k') => n.replace('k', "\u{212A}"),
                0 => n.to_uppercase(),
                1 => {
                    let mut c = n.chars();
                    let f = c.next().unwrap().to_uppercase().collect::<String>();
                    f + c.as_str()
                }
                _ => n,
            };
            v.push(n);
        }
        v.join(",")
    };
    let mut s = part(rng);
    if rng.chance(0.4) {
        s = format!("{}|{}", s, part(rng));
    }
    s
}

pub fn named(name: &str) -> Result<NamedCal, String> {
    NamedCal::try_new(name).map_err(|_| format!("NamedCal::try_new refused '{}'", name))
}

// ------------------------------------------------------------------ splines

#[derive(Clone, Debug, Serialize, Deserialize, PartialEq)]
pub struct SplineSpec {
    /// 0 = f64, 1 = Dual, 2 = Dual2 coefficients
    pub kind: u8,
    pub k: usize,
    pub t: Vec<Fx>,
    /// coefficients given to `PPSpline::new` (length n), or none
    #[serde(default)]
    pub preset: Option<Vec<Num>>,
    /// dual coefficients at even positions are re-expressed on coefficient 0's variable
    /// list (same Arc)
    #[serde(default)]
    pub preset_share: bool,
}

#[derive(Clone, Debug, Serialize, Deserialize, PartialEq)]
pub struct SolveSpec {
    pub tau: Vec<Fx>,
    pub y: Vec<Num>,
    pub left_n: usize,
    pub right_n: usize,
    pub allow_lsq: bool,
}

pub fn gen_spline(rng: &mut Rng) -> SplineSpec {
    if rng.chance(0.05) {
        // symmetric about the origin, built by mirroring: the knot at zero appears as
        // 0.0 followed by -0.0 (non-decreasing under >=, legal for PPSpline::new)
        // (a double knot needs order >= 3 to stay an admissible knot sequence)
        let k = rng.usize_in(3, 5);
        let m = rng.usize_in(1, 3);
        let mut right: Vec<f64> = Vec::new();
        let mut x = 0.0;
        for _ in 0..m {
            x += awkward(rng, 0.05, 5.0, false);
            right.push(x);
        }
        let mut t: Vec<f64> = vec![-x; k - 1];
        for v in right.iter().rev() {
            t.push(-*v);
        }
        t.push(0.0);
        t.push(-0.0);
        for v in right.iter() {
            t.push(*v);
        }
        t.extend(std::iter::repeat(x).take(k - 1));
        return SplineSpec {
            kind: rng.below(3) as u8,
            k,
            t: t.into_iter().map(Fx::new).collect(),
            preset: None,
            preset_share: false,
        };
    }
    if rng.chance(0.04) {
        // an equally spaced grid built by repeated addition of an awkward step, starting
        // below zero and crossing it (the knots are then NOT an exact arithmetic progression)
        let k = rng.usize_in(2, 5);
        let h = awkward(rng, 0.05, 2.0, false);
        let m = rng.usize_in(1, 8);
        let len = k + rng.usize_in(1, 10);
        let mut x = -(m as f64) * h;
        if rng.chance(0.5) {
            x = 0.0;
            for _ in 0..m {
                x -= h;
            }
        }
        let mut t = Vec::with_capacity(len);
        for _ in 0..len {
            t.push(x);
            x += h;
        }
        return SplineSpec {
            kind: rng.below(3) as u8,
            k,
            t: t.into_iter().map(Fx::new).collect(),
            preset: None,
            preset_share: false,
        };
    }
    let k = rng.usize_in(2, 5);
    let interior = if rng.chance(0.05) {
        rng.usize_in(5, 40)
    } else {
        rng.usize_in(0, 4)
    };
    let a = awkward(rng, 0.1, 50.0, true);
    // mostly clamped (k coincident end knots); sometimes fewer coincident end knots, down
    // to a plain increasing sequence (a uniform / periodic-style knot vector)
    let (lm, rm) = if rng.chance(0.1) {
        (rng.usize_in(1, k), rng.usize_in(1, k))
    } else {
        (k, k)
    };
    let mut t = vec![a; lm];
    let mut x = a;
    // an open end needs further distinct knots so that the sequence keeps its k + n shape
    for _ in lm..k {
        x += if rng.chance(0.5) { 1.0 } else { awkward(rng, 0.05, 5.0, false) };
        t.push(x);
    }
    for _ in 0..interior {
        x += awkward(rng, 0.05, 5.0, false);
        t.push(x);
        if k > 2 && rng.chance(0.15) {
            t.push(x); // a double interior knot
        }
    }
    for _ in rm..k {
        x += if rng.chance(0.5) { 1.0 } else { awkward(rng, 0.05, 5.0, false) };
        t.push(x);
    }
    x += awkward(rng, 0.05, 5.0, false);
    for _ in 0..rm {
        t.push(x);
    }
    SplineSpec {
        kind: rng.below(3) as u8,
        k,
        t: t.into_iter().map(Fx::new).collect(),
        preset: None,
        preset_share: false,
    }
}

/// A coefficient vector of the right length for a spline born solved.
pub fn gen_preset(rng: &mut Rng, s: &SplineSpec) -> Vec<Num> {
    let n = s.t.len() - s.k;
    (0..n)
        .map(|_| {
            let nv = rng.usize_in(1, 2);
            let names = crate::rsx::gen_names(rng, nv, "c_");
            gen_num_with(rng, s.kind, nv, names, &mut |r| awkward(r, 1e-2, 1e2, true))
        })
        .collect()
}

/// Greville abscissae: a data-site set for which collocation is non-singular.
pub fn greville(s: &SplineSpec) -> Vec<f64> {
    let t: Vec<f64> = s.t.iter().map(|x| x.get()).collect();
    let n = t.len() - s.k;
    let (lo, hi) = (t[0], t[t.len() - 1]);
    (0..n)
        .map(|i| {
            let g = if s.k == 1 {
                t[i]
            } else {
                t[i + 1..i + s.k].iter().sum::<f64>() / (s.k as f64 - 1.0)
            };
            // rounding must not push a site outside the domain
            g.max(lo).min(hi)
        })
        .collect()
}

pub fn gen_solve(rng: &mut Rng, s: &SplineSpec, mismatched: bool) -> SolveSpec {
    let tau = greville(s);
    let mut ny = tau.len();
    if mismatched {
        ny = if rng.chance(0.5) || ny == 0 { ny + 1 } else { ny - 1 };
    }
    let y = (0..ny)
        .map(|_| {
            let nv = rng.usize_in(1, 2);
            let names = crate::rsx::gen_names(rng, nv, "s_");
            gen_num_with(rng, s.kind, nv, names, &mut |r| awkward(r, 1e-2, 1e2, true))
        })
        .collect();
    SolveSpec {
        tau: tau.into_iter().map(Fx::new).collect(),
        y,
        left_n: 0,
        right_n: 0,
        allow_lsq: false,
    }
}
