//! Shared machinery: violations, panic capture around calls into rateslib, the observer
//! (event digest, fired-fault counters, abstract-state set), scenario trait.

use crate::rng::Fnv;
use serde::de::DeserializeOwned;
use serde::{Deserialize, Serialize};
use std::cell::RefCell;
use std::collections::{BTreeMap, HashSet};
use std::panic::{catch_unwind, AssertUnwindSafe};

#[derive(Clone, Copy, Debug, PartialEq, Eq, Serialize, Deserialize)]
pub enum Tier {
    Quick,
    Thorough,
}

impl Tier {
    pub fn parse(s: &str) -> Option<Tier> {
        match s {
            "quick" => Some(Tier::Quick),
            "thorough" => Some(Tier::Thorough),
            _ => None,
        }
    }
    pub fn name(&self) -> &'static str {
        match self {
            Tier::Quick => "quick",
            Tier::Thorough => "thorough",
        }
    }
}

#[derive(Clone, Debug, Serialize, Deserialize, PartialEq)]
pub struct Violation {
    pub property: String,
    /// Names the entry point and failure class; never a line number, address or seed.
    pub signature: String,
    pub message: String,
}

impl Violation {
    pub fn new(property: &str, signature: String, message: String) -> Violation {
        Violation {
            property: property.to_string(),
            signature,
            message,
        }
    }
}

/// A harness-side failure (bad plan, internal inconsistency): exit 2, never a VIOLATION.
#[derive(Clone, Debug, Serialize, Deserialize)]
pub struct HarnessError(pub String);

#[derive(Debug)]
pub enum Fail {
    Violation(Violation),
    Harness(HarnessError),
}

impl From<Violation> for Fail {
    fn from(v: Violation) -> Self {
        Fail::Violation(v)
    }
}
impl From<HarnessError> for Fail {
    fn from(v: HarnessError) -> Self {
        Fail::Harness(v)
    }
}

#[derive(Clone, Debug)]
pub struct PanicInfo {
    pub msg: String,
    pub file: String,
    pub line: u32,
}

impl PanicInfo {
    /// Message with digits collapsed and truncated: stable across inputs of the same class.
    pub fn stem(&self) -> String {
        let mut out = String::new();
        let mut last_hash = false;
        for c in self.msg.chars() {
            if c.is_ascii_digit() {
                if !last_hash {
                    out.push('#');
                }
                last_hash = true;
            } else if c == '\n' {
                break;
            } else {
                out.push(c);
                last_hash = false;
            }
            if out.len() >= 90 {
                break;
            }
        }
        out
    }
    pub fn short_file(&self) -> String {
        // keep the path relative to the repo / crate, no line number in signatures
        let f = &self.file;
        if let Some(i) = f.find("/repo/") {
            return f[i + 6..].to_string();
        }
        if let Some(i) = f.find("registry/src/") {
            let rest = &f[i + 13..];
            if let Some(j) = rest.find('/') {
                return rest[j + 1..].to_string();
            }
        }
        f.clone()
    }
}

thread_local! {
    static LAST_PANIC: RefCell<Option<PanicInfo>> = const { RefCell::new(None) };
    static IN_GUARD: RefCell<bool> = const { RefCell::new(false) };
}

pub fn install_panic_hook() {
    let verbose = std::env::var("VERIF_VERBOSE").is_ok();
    std::panic::set_hook(Box::new(move |info| {
        let msg = if let Some(s) = info.payload().downcast_ref::<&str>() {
            s.to_string()
        } else if let Some(s) = info.payload().downcast_ref::<String>() {
            s.clone()
        } else {
            "<non-string panic payload>".to_string()
        };
        let (file, line) = info
            .location()
            .map(|l| (l.file().to_string(), l.line()))
            .unwrap_or(("<unknown>".to_string(), 0));
        let guarded = IN_GUARD.with(|g| *g.borrow());
        if verbose || !guarded {
            eprintln!("[panic] {} at {}:{}", msg, file, line);
        }
        LAST_PANIC.with(|p| *p.borrow_mut() = Some(PanicInfo { msg, file, line }));
    }));
}

/// Run one call into the code under test, turning an unwind into a value.
/// Only the closure is covered: a panic anywhere else in the harness is a harness error.
pub fn guard<T>(f: impl FnOnce() -> T) -> Result<T, PanicInfo> {
    IN_GUARD.with(|g| *g.borrow_mut() = true);
    LAST_PANIC.with(|p| *p.borrow_mut() = None);
    let r = catch_unwind(AssertUnwindSafe(f));
    IN_GUARD.with(|g| *g.borrow_mut() = false);
    match r {
        Ok(v) => Ok(v),
        Err(_) => Err(LAST_PANIC
            .with(|p| p.borrow_mut().take())
            .unwrap_or(PanicInfo {
                msg: "<panic without hook info>".into(),
                file: "<unknown>".into(),
                line: 0,
            })),
    }
}

/// guard + conversion of a panic into a Violation of `property` at entry point `op`.
pub fn call<T>(property: &str, op: &str, f: impl FnOnce() -> T) -> Result<T, Violation> {
    guard(f).map_err(|p| {
        Violation::new(
            property,
            format!("{}|panic|{}|{}", property, op, p.stem()),
            format!(
                "{} panicked: {} (at {}:{})",
                op,
                p.msg.lines().next().unwrap_or(""),
                p.short_file(),
                p.line
            ),
        )
    })
}

/// Observer of one worker: everything here is derived from executed plans only.
#[derive(Default)]
pub struct Obs {
    pub digest: Fnv,
    pub seq: u64,
    pub counters: BTreeMap<String, u64>,
    pub states: HashSet<u64>,
    pub trace: Option<Vec<String>>,
    pub known_hits: BTreeMap<String, String>,
}

impl Obs {
    pub fn new(trace: bool) -> Obs {
        Obs {
            digest: Fnv::new(),
            seq: 0,
            counters: BTreeMap::new(),
            states: HashSet::new(),
            trace: if trace { Some(Vec::new()) } else { None },
            known_hits: BTreeMap::new(),
        }
    }
    /// Record one event: global sequence number, op label, digest of its outcome.
    pub fn event(&mut self, op: &str, outcome: u64) {
        self.seq += 1;
        self.digest.u64(self.seq);
        self.digest.str(op);
        self.digest.u64(outcome);
        if let Some(t) = self.trace.as_mut() {
            t.push(format!("{:>5} {:<28} {:016x}", self.seq, op, outcome));
        }
    }
    pub fn note(&mut self, text: impl FnOnce() -> String) {
        if let Some(t) = self.trace.as_mut() {
            t.push(format!("      # {}", text()));
        }
    }
    pub fn count(&mut self, key: &str) {
        *self.counters.entry(key.to_string()).or_insert(0) += 1;
    }
    pub fn count_n(&mut self, key: &str, n: u64) {
        *self.counters.entry(key.to_string()).or_insert(0) += n;
    }
    pub fn state(&mut self, h: u64) {
        self.states.insert(h);
    }
    pub fn reset_run(&mut self) {
        self.digest = Fnv::new();
        self.seq = 0;
        if let Some(t) = self.trace.as_mut() {
            t.clear();
        }
    }
}

/// A property scenario. Generation may use the PRNG; execution must not.
pub trait Scenario {
    type Plan: Serialize + DeserializeOwned + Clone;
    const ID: &'static str;
    const LEVEL: &'static str;

    /// Number of work units (seeded runs, or enumerated documents) for a tier.
    fn units(tier: Tier) -> u64;
    /// Produce the plan(s) of one work unit. A pure function of (seed, tier, unit).
    fn unit(seed: u64, tier: Tier, unit: u64, sink: &mut dyn FnMut(Self::Plan) -> bool);
    /// Execute one plan against the real code. Pure function of the plan and the code.
    fn execute(plan: &Self::Plan, obs: &mut Obs) -> Result<(), Fail>;
    /// Candidate simplifications of a failing plan, simplest first.
    fn shrink(plan: &Self::Plan) -> Vec<Self::Plan>;
    /// Is the plan non-trivial by the rule stated in `rule()`?
    fn nontrivial(plan: &Self::Plan) -> bool;
    /// Short label of the entry point a plan drives (used in abort / hang signatures).
    fn label(_plan: &Self::Plan) -> String {
        String::new()
    }
    /// How many times the ordinary per-plan CPU allowance this plan may take before the
    /// watchdog calls it a hang (very large objects are slow, not stuck).
    fn budget(_plan: &Self::Plan) -> u64 {
        1
    }
    /// Re-execute one unit in eight in worker processes that do NOT start a Python
    /// interpreter (the state of a plain Rust caller): there, formatting a `PyErr` aborts.
    const BARE_PASS: bool = false;
    fn rule() -> String;
    fn assumptions() -> Vec<String>;
    fn components() -> serde_json::Value;
    fn exhaustive(_tier: Tier) -> bool {
        false
    }
    fn extra_coverage(_tier: Tier) -> serde_json::Value {
        serde_json::Value::Null
    }
}

pub fn hex_f64(v: f64) -> String {
    format!("{:016x}", v.to_bits())
}

/// Doubles are stored in plans as hex bit patterns so that replay files do not themselves
/// depend on float text round-tripping.
pub mod hexf {
    use serde::{Deserialize, Deserializer, Serializer};
    pub fn serialize<S: Serializer>(v: &f64, s: S) -> Result<S::Ok, S::Error> {
        s.serialize_str(&format!("{:016x}", v.to_bits()))
    }
    pub fn deserialize<'de, D: Deserializer<'de>>(d: D) -> Result<f64, D::Error> {
        let s = String::deserialize(d)?;
        u64::from_str_radix(&s, 16)
            .map(f64::from_bits)
            .map_err(serde::de::Error::custom)
    }
}

/// A double in a plan: hex bits are authoritative, `approx` is for human readers only.
#[derive(Clone, Copy, Debug, Serialize, Deserialize, PartialEq)]
pub struct Fx {
    #[serde(with = "hexf")]
    pub bits: f64,
    #[serde(default)]
    pub approx: f64,
}

impl Fx {
    pub fn new(v: f64) -> Fx {
        Fx {
            bits: v,
            approx: if v.is_finite() { v } else { 0.0 },
        }
    }
    pub fn get(&self) -> f64 {
        self.bits
    }
}
