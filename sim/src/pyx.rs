//! Embedded interpreter: initialisation and real Python pickling of the extension classes.
//!
//! The `rs` extension module is registered (guarded hook) before the interpreter starts and
//! aliased as `rateslib.rs`, the module path the classes declare, so that `pickle` can find
//! them. `pickle.dumps` / `pickle.loads` then drive the real `__getnewargs__`,
//! `__getstate__`, `__new__` and `__setstate__` methods of the bindings.

use pyo3::prelude::*;
use pyo3::types::PyBytes;
use std::ffi::CString;

pub fn init() {
    // rateslib formats PyErr with Debug inside .expect(); that needs an interpreter or the
    // process aborts (panic inside panic). See DESIGN 3.8.
    rateslib::verif_append_to_inittab();
    pyo3::prepare_freethreaded_python();
    let code = CString::new(
        "import sys, types, rs\n\
         pkg = types.ModuleType('rateslib')\n\
         pkg.rs = rs\n\
         sys.modules['rateslib'] = pkg\n\
         sys.modules['rateslib.rs'] = rs\n\
         import warnings\n\
         warnings.simplefilter('ignore')\n",
    )
    .unwrap();
    Python::with_gil(|py| {
        if let Err(e) = py.run(&code, None, None) {
            eprintln!("harness error: cannot set up the embedded rateslib.rs module: {}", e);
            std::process::exit(2);
        }
    });
}

pub fn dumps(py: Python<'_>, obj: PyObject) -> Result<Vec<u8>, String> {
    let pickle = py.import("pickle").map_err(|e| e.to_string())?;
    let b = pickle
        .call_method1("dumps", (obj,))
        .map_err(|e| format!("pickle.dumps: {}", e))?;
    b.extract::<Vec<u8>>().map_err(|e| e.to_string())
}

pub fn loads<'py>(py: Python<'py>, bytes: &[u8]) -> Result<Bound<'py, PyAny>, String> {
    let pickle = py.import("pickle").map_err(|e| e.to_string())?;
    pickle
        .call_method1("loads", (PyBytes::new(py, bytes),))
        .map_err(|e| format!("pickle.loads: {}", e))
}
