//! C10 — FX sensitivities are exact and the market state follows its update history.
//!
//! System under simulation: one live `FXRates` plus an optional replica made by `clone()`.
//! The simulator drives seeded histories of update / set_ad_order / refused updates
//! (unknown pair; late failure inside the rebuild) and checks every cross rate, gradient and
//! Hessian after every step against a reference model.

use crate::core::*;
use crate::refad::{Em, R};
use crate::rng::{mix, Fnv, Rng};
use crate::rsx::*;
use rateslib::dual::Number;
use rateslib::fx::rates::{Ccy, FXRate, FXRates};
use serde::{Deserialize, Serialize};
use std::collections::BTreeSet;

pub const P: &str = "C10";

#[derive(Clone, Debug, Serialize, Deserialize, PartialEq)]
pub struct Quote {
    pub lhs: String,
    pub rhs: String,
    pub num: Num,
    /// settlement as day number, or none
    pub settle: Option<i64>,
    /// optional time of day of the settlement: (seconds, nanoseconds); nanoseconds >= 1e9
    /// with seconds % 60 == 59 is chrono's representation of a leap second
    #[serde(default)]
    pub tod: Option<(u32, u32)>,
}

/// The settlement datetime of a quote.
pub fn settle_ndt(q_settle: Option<i64>, tod: Option<(u32, u32)>) -> Option<chrono::NaiveDateTime> {
    q_settle.map(|d| {
        let base = day_to_ndt(d);
        match tod {
            None => base,
            Some((s, n)) => chrono::NaiveTime::from_num_seconds_from_midnight_opt(s, n)
                .map(|t| base.date().and_time(t))
                .unwrap_or(base),
        }
    })
}

/// A settlement day: mostly 2000-2030, sometimes anywhere in years 1..9999.
fn gen_settle_day(rng: &mut Rng) -> i64 {
    match rng.below(20) {
        0 => rng.i64_in(-719_162, 2_932_896),
        3 if rng.chance(0.5) => rng.i64_in(2_932_897, 6_000_000), // years 10000..18000
        3 => rng.i64_in(-2_500_000, -719_163),                    // before the common era
        1 => rng.i64_in(100_000, 130_000), // years 2243..2325: beyond i64 nanoseconds
        2 => rng.i64_in(-140_000, -100_000), // years 1586..1696
        // dates that software uses as markers: the earliest and latest representable
        // datetime, the ends of the four-digit years, the epoch
        4 if rng.chance(0.5) => {
            let epoch = chrono::NaiveDate::from_ymd_opt(1970, 1, 1).unwrap();
            let lo = (chrono::NaiveDate::MIN - epoch).num_days();
            let hi = (chrono::NaiveDate::MAX - epoch).num_days();
            *rng.pick(&[lo, lo, lo + 1, hi, hi - 1, -719_162, 2_932_896, 0, -1])
        }
        _ => rng.i64_in(10957, 22000),
    }
}

fn gen_tod(rng: &mut Rng) -> Option<(u32, u32)> {
    match rng.below(25) {
        0 => Some((rng.below(86_400) as u32, 0)),
        1 => Some((rng.below(86_400) as u32, rng.below(1_000_000_000) as u32)),
        2 => Some((86_399, 1_000_000_000 + rng.below(1_000_000_000) as u32)), // leap second
        3 if rng.chance(0.3) => Some((86_399, 999_999_999)), // the last instant of a day
        _ => None,
    }
}

#[derive(Clone, Debug, Serialize, Deserialize, PartialEq)]
pub struct Setup {
    pub quotes: Vec<Quote>,
    pub base: Option<String>,
    /// dual quotes of one kind are re-expressed on ONE shared variable list (same Arc)
    #[serde(default)]
    pub share_vars: bool,
}

#[derive(Clone, Debug, Serialize, Deserialize, PartialEq)]
pub enum Step {
    /// An update; whether it must be accepted or refused is decided by the model.
    Update { target: u8, items: Vec<Quote> },
    SetOrder { target: u8, order: u8 },
    /// replica := clone(primary)
    Fork,
    /// a second market is built from the primary's CURRENT quotes under another base (same
    /// pair list, another currency order) and probed in full; it is then dropped. Whatever the
    /// library remembers from building it must not leak into the primary's next rebuild.
    Sibling { base: Option<String> },
}

#[derive(Clone, Debug, Serialize, Deserialize, PartialEq)]
pub struct Plan {
    pub setup: Setup,
    pub steps: Vec<Step>,
}

const CCYS: &[&str] = &[
    "usd", "eur", "gbp", "jpy", "nok", "sek", "cad", "aud", "chf", "nzd", "brl", "inr", "cny",
    "mxn", "zar", "sgd", "hkd", "krw", "pln", "czk", "huf", "try", "dkk", "thb", "idr", "clp",
];

// ------------------------------------------------------------------ generation

/// Another spelling of the same currency: upper case, or title case where Unicode has one.
fn other_case(rng: &mut Rng, s: &str) -> String {
    let title: String = s
        .chars()
        .map(|c| match c {
            '\u{1c6}' => '\u{1c5}', // dž -> Dž
            '\u{1c9}' => '\u{1c8}', // lj -> Lj
            '\u{1cc}' => '\u{1cb}', // nj -> Nj
            '\u{1f3}' => '\u{1f2}', // dz -> Dz
            o => o,
        })
        .collect();
    let upper = s.to_uppercase();
    // only spellings that are still legal 3-byte codes after lower-casing
    let ok = |t: &String| t.to_lowercase() == s.to_lowercase() && t.to_lowercase().len() == 3;
    if title != s && ok(&title) && rng.chance(0.5) {
        title
    } else if ok(&upper) {
        upper
    } else {
        s.to_string()
    }
}

/// A quote level: mostly log-uniform over eight decades, sometimes a "round" value
/// (special-cased fast paths are a classic place for a slip).
fn gen_level(rng: &mut Rng) -> f64 {
    match rng.below(100) {
        0..=11 => *rng.pick(&[1.0, 2.0, 0.5, 10.0, 100.0, 0.25, 4.0, 0.01]),
        12..=14 => rng.log_uniform(1e-12, 1e12),
        15 => rng.log_uniform(1e-25, 1e-14),
        _ => rng.log_uniform(1e-4, 1e4),
    }
}

/// Re-express a quote on the single variable fx_<lhs><rhs> (its own tag in the market).
fn own_tag_quote(rng: &mut Rng, q: &mut Quote) {
    let name = format!("fx_{}{}", q.lhs.to_lowercase(), q.rhs.to_lowercase());
    let v = q.num.value();
    let c = *rng.pick(&[1.0025, 0.5, 2.0, 1.0, -1.0, 1.1]);
    q.num = if rng.chance(0.5) {
        Num::D {
            v: Fx::new(v),
            g: vec![(name, Fx::new(c))],
        }
    } else {
        Num::D2 {
            v: Fx::new(v),
            g: vec![(name, Fx::new(c))],
            h: vec![(0, 0, Fx::new(*rng.pick(&[0.0, 2.0 / 110.0, 0.25, -0.5])))],
        }
    };
}

fn gen_quote_num(rng: &mut Rng) -> Num {
    let v = gen_level(rng);
    let kind = rng.weighted(&[60, 25, 15]) as u8;
    // mostly one or two own variables, sometimes up to five
    let maxvars = match rng.below(100) {
        0 => 30,
        1..=9 => 5,
        _ => 2,
    };
    gen_num(rng, kind, v, maxvars, "")
}

pub fn generate(rng: &mut Rng, tier: Tier) -> Plan {
    let nmax = if tier == Tier::Quick { 8 } else { 12 };
    // bias towards small markets: many short diverse runs
    let n = match rng.below(100) {
        0..=49 => rng.usize_in(2, 4),
        50..=97 => rng.usize_in(2, nmax),
        // occasionally beyond the 2..12 of the property's quantifier: the code accepts any
        // size, and size thresholds are a classic place for a slip
        _ => rng.usize_in(13, if tier == Tier::Quick { 18 } else { 24 }),
    };
    // a market whose quotes all sit in one far decade; half of these are chains as long as
    // keeps every cross within 1e+-140 (see below), so that crosses beyond 1e+-100 occur
    let far_pick: Option<f64> = if rng.chance(0.03) {
        Some(*rng.pick(&[10.0, -10.0, 12.0, -12.0, 25.0, -25.0, 30.0, -30.0, 8.0, -8.0]))
    } else {
        None
    };
    let far_chain = far_pick.is_some() && rng.chance(0.5);
    let n = match (far_pick, far_chain) {
        (Some(e), true) => ((140.0 / (e.abs() + 0.5)).floor() as usize + 1).clamp(2, nmax),
        _ => n,
    };
    // a market on very many variables (see below): 9..14 currencies, mostly a chain
    let wide_pick = far_pick.is_none() && rng.chance(0.006);
    let n = if wide_pick { rng.usize_in(9, 14) } else { n };
    // mostly ISO-like codes; sometimes any legal 3-byte code: digits, punctuation, quotes,
    // backslashes, control characters, non-ASCII and titlecase letters, near-identical codes
    const EXOTIC: &[&str] = &[
        "us1", "usq", "us0", "usp", "e\"r", "a\\b", "\u{1c6}a", "éa", "x\ty", "a b", "£1", "ñx", "a\u{0}b",
        "z.z", "{}1", "[1]", "0e0", "nan", "inf", "1e9", "-1.", "ωa", "ßa", "ǉa", "ǳa", "aΣ", "bΣ", "Σa",
    ];
    let mut names: Vec<&str> = if rng.chance(0.05) {
        let mut v = EXOTIC.to_vec();
        v.extend_from_slice(&CCYS[..8]);
        v
    } else {
        CCYS.to_vec()
    };
    rng.shuffle(&mut names);
    let ccys: Vec<String> = names[..n].iter().map(|s| s.to_string()).collect();
    let outsider = names[n].to_string();
    let shape = if far_chain || (wide_pick && rng.chance(0.6)) { 1 } else { rng.below(3) };
    let mut quotes = Vec::new();
    let settle = if rng.chance(0.5) {
        Some(gen_settle_day(rng))
    } else {
        None
    };
    let tod = if settle.is_some() { gen_tod(rng) } else { None };
    let float_only = !wide_pick && rng.chance(0.3);
    // rateslib's reciprocal rule squares its argument: keep every cross within 1e+-140 so
    // that no intermediate of ANY evaluation order under- or overflows
    let far_decade: Option<f64> =
        far_pick.filter(|e| (e.abs() + 0.5) * (n as f64 - 1.0) <= 140.0);
    for i in 1..n {
        let parent = match shape {
            0 => rng.below(i as u64) as usize,
            1 => i - 1,
            _ => 0,
        };
        let (a, b) = if rng.chance(0.5) {
            (parent, i)
        } else {
            (i, parent)
        };
        let num = if float_only {
            Num::F(Fx::new(gen_level(rng)))
        } else {
            gen_quote_num(rng)
        };
        // a market whose quotes all sit in one far decade: crosses reach 1e+-100 and beyond
        let num = match far_decade {
            Some(e) => num.with_value(10f64.powf(e + rng.f64_in(-0.5, 0.5))),
            None => num,
        };
        quotes.push(Quote {
            lhs: ccys[a].clone(),
            rhs: ccys[b].clone(),
            num,
            settle,
            tod,
        });
    }
    // sometimes a dual quote's own variable has the very name another plain quote will be
    // given (fx_<pair>): a legal coincidence, the two then share one variable
    if !float_only && rng.chance(0.05) {
        let plain: Vec<String> = quotes
            .iter()
            .filter(|q| q.num.kind() == 0)
            .map(|q| format!("fx_{}{}", q.lhs, q.rhs))
            .collect();
        if !plain.is_empty() {
            let name = rng.pick(&plain).clone();
            for q in quotes.iter_mut() {
                match &mut q.num {
                    Num::D { g, .. } | Num::D2 { g, .. } => {
                        if !g.is_empty() && !g.iter().any(|(n, _)| n == &name) {
                            g[0].0 = name.clone();
                        }
                        break;
                    }
                    _ => {}
                }
            }
        }
    }
    // two quotes whose variable names differ only in letter case (spot / SPOT): different
    // variables
    if !float_only && rng.chance(0.05) {
        let donors: Vec<String> = quotes
            .iter()
            .filter_map(|q| match &q.num {
                Num::D { g, .. } | Num::D2 { g, .. } => g.first().map(|(n, _)| n.clone()),
                _ => None,
            })
            .collect();
        if let Some(name) = donors.first() {
            let variant = if name.to_uppercase() != *name { name.to_uppercase() } else { name.to_lowercase() };
            if variant != *name {
                for q in quotes.iter_mut().rev() {
                    if let Num::D { g, .. } | Num::D2 { g, .. } = &mut q.num {
                        if !g.is_empty()
                            && !g.iter().any(|(n, _)| n == &variant)
                            && !g.iter().any(|(n, _)| n == name)
                        {
                            g[0].0 = variant.clone();
                            break;
                        }
                    }
                }
            }
        }
    }
    // a quote that is a function of the market's own tag for that pair (the live rate fed
    // back in, scaled or curved): ONE variable named exactly fx_<lhs><rhs>, non-unit
    // sensitivity, own curvature
    if !float_only && rng.chance(0.05) {
        let i = rng.below(quotes.len() as u64) as usize;
        own_tag_quote(rng, &mut quotes[i]);
    }
    // every quote with many private variables plus one common factor: the crosses then live
    // on unions of a hundred and more variables
    let wide = wide_pick;
    if wide {
        let per = rng.usize_in(10, 16);
        let kind = if rng.chance(0.7) { 2 } else { 1 };
        for (qi, q) in quotes.iter_mut().enumerate() {
            let v = q.num.value();
            let mut num = gen_num(rng, kind, v, per, &format!("q{}_", qi));
            // force the full count of private variables
            if let Num::D { g, .. } | Num::D2 { g, .. } = &mut num {
                let mut k = g.len();
                while g.len() < per {
                    g.push((format!("q{}_w{}", qi, k), Fx::new(0.5 + 0.125 * (k % 7) as f64)));
                    k += 1;
                }
                g.push(("mkt".to_string(), Fx::new(0.75 + 0.25 * (qi % 3) as f64)));
            }
            if let Num::D2 { g, h, .. } = &mut num {
                let last = g.len() - 1;
                h.push((last, last, Fx::new(0.3 * v)));
            }
            q.num = num;
        }
    }
    rng.shuffle(&mut quotes);
    let base = if rng.chance(0.5) {
        Some(rng.pick(&ccys).clone())
    } else {
        None
    };
    let setup = Setup {
        quotes,
        base,
        share_vars: !float_only && rng.chance(0.2),
    };

    let nsteps = if rng.chance(0.01) && n <= 4 {
        // a long life on a small market
        rng.usize_in(60, 200)
    } else {
        rng.usize_in(2, if tier == Tier::Quick { 14 } else { 22 })
    };
    let nsteps = if wide { nsteps.min(5) } else { nsteps };
    let mut steps = Vec::new();
    let mut forked = false;
    // the generator tracks the current quote list only to produce meaningful items
    let mut cur = setup.quotes.clone();
    let target = |rng: &mut Rng, forked: bool| -> u8 {
        if forked && rng.chance(0.5) {
            1
        } else {
            0
        }
    };
    let gen_valid_items = |rng: &mut Rng, cur: &Vec<Quote>, float_only: bool| -> Vec<Quote> {
        // mode 0: a few quotes move; 1: every quote is re-marked at EXACTLY its current
        // level but (mostly) as a different kind of number; 2: a few, some at the same level
        let mode = match rng.below(20) {
            0 | 1 => 1,
            2..=5 => 2,
            _ => 0,
        };
        let k = if mode == 1 {
            cur.len()
        } else {
            rng.usize_in(1, cur.len().min(3))
        };
        let mut idx: Vec<usize> = (0..cur.len()).collect();
        rng.shuffle(&mut idx);
        idx.truncate(k);
        idx.into_iter()
            .map(|i| {
                let q = &cur[i];
                let same_level = !float_only && (mode == 1 || (mode == 2 && rng.chance(0.6)));
                let num = if same_level {
                    // same value to the bit, different variables / kind
                    gen_quote_num(rng).with_value(q.num.value())
                } else if rng.chance(0.05) {
                    // the smallest possible move: the adjacent double
                    let v = q.num.value();
                    let nv = f64::from_bits(if rng.chance(0.5) {
                        v.to_bits() + 1
                    } else {
                        v.to_bits() - 1
                    });
                    q.num.with_value(nv)
                } else if float_only || rng.chance(0.6) {
                    // same kind, new value
                    q.num.with_value(gen_level(rng))
                } else {
                    gen_quote_num(rng)
                };
                Quote {
                    lhs: q.lhs.clone(),
                    rhs: q.rhs.clone(),
                    num,
                    settle: q.settle,
                    tod: q.tod,
                }
            })
            .collect::<Vec<Quote>>()
    };
    // the same pair named more than once in one update: the later entry is the latest quote
    let gen_valid_items = |rng: &mut Rng, cur: &Vec<Quote>, float_only: bool| -> Vec<Quote> {
        let mut items = gen_valid_items(rng, cur, float_only);
        // numeric coincidences with what the market already holds: a complete update in
        // which the current levels are handed round among the pairs (entry k carries the
        // level stored at position k, under another pair), and a re-mark whose variable
        // names are rotated while level and coefficient sequence stay as they are
        if cur.len() >= 2 && rng.chance(0.03) {
            let shift = rng.usize_in(1, cur.len() - 1);
            let mut all: Vec<Quote> = (0..cur.len())
                .map(|k| {
                    let src = &cur[(k + shift) % cur.len()];
                    Quote {
                        lhs: src.lhs.clone(),
                        rhs: src.rhs.clone(),
                        num: Num::F(Fx::new(cur[k].num.value())),
                        settle: src.settle,
                        tod: src.tod,
                    }
                })
                .collect();
            if rng.chance(0.3) {
                // ... or the first pair named in every position
                for q in all.iter_mut() {
                    q.lhs = cur[0].lhs.clone();
                    q.rhs = cur[0].rhs.clone();
                }
            }
            items = all;
        } else if !float_only && rng.chance(0.03) {
            for q in cur.iter() {
                match &q.num {
                    Num::D { v, g } if g.len() >= 2 => {
                        let mut names: Vec<String> = g.iter().map(|(n, _)| n.clone()).collect();
                        names.rotate_left(1);
                        let g2 = names.into_iter().zip(g.iter().map(|(_, c)| *c)).collect();
                        items = vec![Quote { lhs: q.lhs.clone(), rhs: q.rhs.clone(), num: Num::D { v: *v, g: g2 }, settle: q.settle, tod: q.tod }];
                        break;
                    }
                    Num::D2 { v, g, h } if g.len() >= 2 => {
                        let mut names: Vec<String> = g.iter().map(|(n, _)| n.clone()).collect();
                        names.rotate_left(1);
                        let g2 = names.into_iter().zip(g.iter().map(|(_, c)| *c)).collect();
                        items = vec![Quote { lhs: q.lhs.clone(), rhs: q.rhs.clone(), num: Num::D2 { v: *v, g: g2, h: h.clone() }, settle: q.settle, tod: q.tod }];
                        break;
                    }
                    _ => {}
                }
            }
        }
        // currency codes are case-insensitive
        if rng.chance(0.06) {
            for it in items.iter_mut() {
                if rng.chance(0.5) {
                    it.lhs = other_case(rng, &it.lhs);
                }
                if rng.chance(0.5) {
                    it.rhs = other_case(rng, &it.rhs);
                }
            }
        }
        if rng.chance(0.04) && !items.is_empty() {
            let mut dup = rng.pick(&items).clone();
            dup.num = dup.num.with_value(gen_level(rng));
            let pos = rng.usize_in(0, items.len());
            items.insert(pos, dup);
        }
        items
    };
    let gen_refuse_unknown =
        |rng: &mut Rng, cur: &Vec<Quote>, ccys: &Vec<String>, outsider: &str| -> Vec<Quote> {
            let mut items = if rng.chance(0.5) {
                gen_valid_items(rng, cur, true)
            } else {
                vec![]
            };
            // find a pair of market currencies not directly quoted (either orientation)
            let mut unquoted: Vec<(String, String)> = Vec::new();
            for a in ccys {
                for b in ccys {
                    if a != b
                        && !cur
                            .iter()
                            .any(|q| (&q.lhs == a && &q.rhs == b) || (&q.lhs == b && &q.rhs == a))
                    {
                        unquoted.push((a.clone(), b.clone()));
                    }
                }
            }
            let (l, r) = if !unquoted.is_empty() && rng.chance(0.5) {
                rng.pick(&unquoted).clone()
            } else {
                let inside = rng.pick(ccys).clone();
                if rng.chance(0.5) {
                    (inside, outsider.to_string())
                } else {
                    (outsider.to_string(), inside)
                }
            };
            let bad = Quote {
                lhs: l,
                rhs: r,
                num: Num::F(Fx::new(gen_level(rng))),
                settle: cur[0].settle,
                tod: cur[0].tod,
            };
            let pos = rng.usize_in(0, items.len());
            items.insert(pos, bad);
            items
        };
    let gen_refuse_late = |rng: &mut Rng, cur: &Vec<Quote>| -> Option<Vec<Quote>> {
        if cur.len() < 2 {
            return None;
        }
        let q = rng.pick(cur).clone();
        let settle = match q.settle {
            Some(d) => {
                if rng.chance(0.5) {
                    Some((d + rng.i64_in(1, 30)).min(6_000_000))
                } else {
                    None
                }
            }
            None => Some(rng.i64_in(10957, 22000)),
        };
        // sometimes only the time of day differs; sometimes only the fraction of the second
        // (or 23:59:59 against the leap second 23:59:60, which share a timestamp)
        let (settle, tod) = if q.settle.is_some() && rng.chance(0.2) {
            (q.settle, Some((rng.below(86_399) as u32 + 1, 7)))
        } else if q.settle.is_some() && rng.chance(0.15) {
            let (s0, n0) = q.tod.unwrap_or((0, 0));
            let n1 = if s0 == 86_399 && rng.chance(0.5) {
                if n0 >= 1_000_000_000 { n0 - 1_000_000_000 } else { n0 + 1_000_000_000 }
            } else if n0 >= 1_000_000_000 {
                1_000_000_000 + (n0 + 250_000_000) % 1_000_000_000
            } else {
                (n0 + 250_000_000) % 1_000_000_000
            };
            (q.settle, Some((s0, n1)))
        } else {
            (settle, q.tod)
        };
        let tod = if settle.is_none() { None } else { tod };
        if settle == q.settle && tod == q.tod {
            return None;
        }
        Some(vec![Quote {
            lhs: q.lhs.clone(),
            rhs: q.rhs.clone(),
            num: q.num.with_value(gen_level(rng)),
            settle,
            tod,
        }])
    };
    let apply = |cur: &mut Vec<Quote>, items: &Vec<Quote>| {
        for it in items {
            if let Some(q) = cur
                .iter_mut()
                .find(|q| q.lhs == it.lhs && q.rhs == it.rhs)
            {
                *q = it.clone();
            }
        }
    };
    // NOTE: with a replica the generator's `cur` follows the primary only approximately;
    // expectations are never taken from the generator, always from the model at execution.
    for _ in 0..nsteps {
        if rng.chance(0.02) {
            // an update that names nothing: legal, changes nothing
            steps.push(Step::Update {
                target: target(rng, forked),
                items: vec![],
            });
            continue;
        }
        if rng.chance(0.06) {
            // roll the whole market to one new settlement date (or date an undated market,
            // or undate a dated one): every pair re-quoted, consistent, hence acceptable
            let new_settle = match cur[0].settle {
                Some(d) => {
                    if rng.chance(0.8) {
                        Some((d + rng.i64_in(1, 40)).min(6_000_000))
                    } else {
                        None
                    }
                }
                None => Some(gen_settle_day(rng)),
            };
            let new_tod = if new_settle.is_some() { gen_tod(rng) } else { None };
            let items: Vec<Quote> = cur
                .iter()
                .map(|q| Quote {
                    lhs: q.lhs.clone(),
                    rhs: q.rhs.clone(),
                    num: if rng.chance(0.5) {
                        q.num.clone()
                    } else {
                        q.num.with_value(gen_level(rng))
                    },
                    settle: new_settle,
                    tod: new_tod,
                })
                .collect();
            let t = target(rng, forked);
            if t == 0 {
                apply(&mut cur, &items);
            }
            steps.push(Step::Update { target: t, items });
            continue;
        }
        if rng.chance(0.04) {
            let b = if rng.chance(0.8) { Some(rng.pick(&ccys).clone()) } else { None };
            steps.push(Step::Sibling { base: b });
            continue;
        }
        match rng.weighted(&[40, 25, 12, 10, if forked { 1 } else { 6 }]) {
            0 => {
                let mut items = gen_valid_items(rng, &cur, float_only);
                if rng.chance(0.015) {
                    // a long batch of ticks over a few pairs: the LAST entry of each pair is
                    // the latest quote
                    let pairs: Vec<Quote> = {
                        let k = rng.usize_in(1, cur.len().min(4));
                        let mut idx: Vec<usize> = (0..cur.len()).collect();
                        rng.shuffle(&mut idx);
                        idx.truncate(k);
                        idx.into_iter().map(|i| cur[i].clone()).collect()
                    };
                    let len = *rng.pick(&[33usize, 40, 65, 70, 100, 130]);
                    items = (0..len)
                        .map(|_| {
                            let q = rng.pick(&pairs);
                            Quote {
                                lhs: q.lhs.clone(),
                                rhs: q.rhs.clone(),
                                num: q.num.with_value(gen_level(rng)),
                                settle: q.settle,
                                tod: q.tod,
                            }
                        })
                        .collect();
                }
                if rng.chance(0.03) && items.len() >= 2 {
                    // an earlier, superseded entry of a pair carries another settlement date:
                    // after the merge (last entry wins) the list is consistent
                    let last = items.len() - 1;
                    let mut early = items[last].clone();
                    early.settle = match early.settle {
                        Some(d) => Some((d - rng.i64_in(1, 5)).max(-2_400_000)),
                        None => Some(rng.i64_in(10957, 22000)),
                    };
                    early.num = early.num.with_value(gen_level(rng));
                    let pos = rng.usize_in(0, last);
                    items.insert(pos, early);
                }
                if !float_only && rng.chance(0.03) && !items.is_empty() {
                    let i = rng.below(items.len() as u64) as usize;
                    own_tag_quote(rng, &mut items[i]);
                }
                let t = target(rng, forked);
                if t == 0 {
                    apply(&mut cur, &items);
                }
                steps.push(Step::Update { target: t, items });
            }
            1 => steps.push(Step::SetOrder {
                target: target(rng, forked),
                order: rng.below(3) as u8,
            }),
            2 => {
                let mut items = gen_refuse_unknown(rng, &cur, &ccys, &outsider);
                // ... sometimes inside a list that re-dates EVERY stored quote (and dates the
                // unknown entry like the rest)
                if rng.chance(0.15) {
                    let nd = Some(rng.i64_in(10957, 22000));
                    let mut all: Vec<Quote> = cur
                        .iter()
                        .map(|q| Quote {
                            lhs: q.lhs.clone(),
                            rhs: q.rhs.clone(),
                            num: q.num.with_value(gen_level(rng)),
                            settle: nd,
                            tod: None,
                        })
                        .collect();
                    let known = |it: &Quote| cur.iter().any(|q| q.lhs.eq_ignore_ascii_case(&it.lhs) && q.rhs.eq_ignore_ascii_case(&it.rhs));
                    let unknown: Vec<Quote> = items.iter().filter(|it| !known(it)).cloned().collect();
                    for mut u in unknown {
                        u.settle = nd;
                        u.tod = None;
                        let pos = rng.usize_in(0, all.len());
                        all.insert(pos, u);
                    }
                    if all.len() > cur.len() {
                        items = all;
                    }
                }
                steps.push(Step::Update {
                    target: target(rng, forked),
                    items,
                })
            }
            3 => {
                if let Some(items) = gen_refuse_late(rng, &cur) {
                    steps.push(Step::Update {
                        target: target(rng, forked),
                        items,
                    });
                }
            }
            _ => {
                steps.push(Step::Fork);
                forked = true;
            }
        }
    }
    // tail: an order change, a refusal, then a success and (implicitly) a full probe
    steps.push(Step::SetOrder {
        target: 0,
        order: rng.below(3) as u8,
    });
    let refusal = if rng.chance(0.5) {
        gen_refuse_late(rng, &cur)
    } else {
        None
    }
    .unwrap_or_else(|| gen_refuse_unknown(rng, &cur, &ccys, &outsider));
    steps.push(Step::Update {
        target: 0,
        items: refusal,
    });
    let items = gen_valid_items(rng, &cur, float_only);
    steps.push(Step::Update { target: 0, items });
    if rng.chance(0.5) {
        steps.push(Step::SetOrder {
            target: 0,
            order: rng.below(3) as u8,
        });
    }
    Plan { setup, steps }
}

// ------------------------------------------------------------------ model

#[derive(Clone)]
struct Model {
    quotes: Vec<Quote>,
    ccys: Vec<String>,
    base: Option<String>,
    /// Some(k) after an explicit SetOrder(k), until the next accepted update
    explicit_order: Option<u8>,
    share_vars: bool,
}

fn lower_quote(q: &Quote) -> Quote {
    Quote {
        lhs: q.lhs.to_lowercase(),
        rhs: q.rhs.to_lowercase(),
        num: q.num.clone(),
        settle: q.settle,
        tod: q.tod,
    }
}

enum Expect {
    Accept(Vec<Quote>),
    RefuseUnknown,
    RefuseLate,
}

fn settlement_consistent(qs: &[Quote]) -> bool {
    let first = settle_ndt(qs[0].settle, qs[0].tod);
    qs.iter().all(|q| settle_ndt(q.settle, q.tod) == first)
}

impl Model {
    fn new(setup: &Setup) -> Model {
        // the constructors lower-case currency names: "USD" and "usd" are one currency
        let setup = &Setup {
            quotes: setup.quotes.iter().map(lower_quote).collect(),
            base: setup.base.as_ref().map(|b| b.to_lowercase()),
            share_vars: setup.share_vars,
        };
        let mut ccys: Vec<String> = Vec::new();
        if let Some(b) = &setup.base {
            ccys.push(b.clone());
        }
        for q in &setup.quotes {
            for c in [&q.lhs, &q.rhs] {
                if !ccys.contains(c) {
                    ccys.push(c.clone());
                }
            }
        }
        Model {
            quotes: setup.quotes.clone(),
            ccys,
            base: setup.base.clone(),
            explicit_order: None,
            share_vars: setup.share_vars,
        }
    }

    fn expect_update(&self, items: &[Quote]) -> Expect {
        let items: Vec<Quote> = items.iter().map(lower_quote).collect();
        let items = &items[..];
        for it in items {
            if !self
                .quotes
                .iter()
                .any(|q| q.lhs == it.lhs && q.rhs == it.rhs)
            {
                return Expect::RefuseUnknown;
            }
        }
        let mut qs = self.quotes.clone();
        for it in items {
            let q = qs
                .iter_mut()
                .find(|q| q.lhs == it.lhs && q.rhs == it.rhs)
                .unwrap();
            *q = it.clone();
        }
        if !settlement_consistent(&qs) {
            return Expect::RefuseLate;
        }
        Expect::Accept(qs)
    }

    /// path from ccy index i to j as (quote index, sign)
    fn paths_from(&self, i: usize) -> Vec<Option<Vec<(usize, i8)>>> {
        let n = self.ccys.len();
        let idx = |c: &String| self.ccys.iter().position(|x| x == c).unwrap();
        let mut out: Vec<Option<Vec<(usize, i8)>>> = vec![None; n];
        out[i] = Some(vec![]);
        let mut stack = vec![i];
        while let Some(u) = stack.pop() {
            let pu = out[u].clone().unwrap();
            for (k, q) in self.quotes.iter().enumerate() {
                let (a, b) = (idx(&q.lhs), idx(&q.rhs));
                let (v, s) = if a == u {
                    (b, 1i8)
                } else if b == u {
                    (a, -1i8)
                } else {
                    continue;
                };
                if out[v].is_none() {
                    let mut p = pu.clone();
                    p.push((k, s));
                    out[v] = Some(p);
                    stack.push(v);
                }
            }
        }
        out
    }
}

/// First- and second-order data of one quote at a given derivative order, by name.
struct QD {
    v: f64,
    g: Vec<(String, f64)>,
    h: Vec<(String, String, f64)>,
}

fn quote_data(q: &Quote, order: u8) -> QD {
    let v = q.num.value();
    if order == 0 {
        return QD {
            v,
            g: vec![],
            h: vec![],
        };
    }
    match &q.num {
        Num::F(_) => QD {
            v,
            g: vec![(format!("fx_{}{}", q.lhs, q.rhs), 1.0)],
            h: vec![],
        },
        Num::D { g, .. } => QD {
            v,
            g: g.iter().map(|(n, c)| (n.clone(), c.get())).collect(),
            h: vec![],
        },
        Num::D2 { g, h, .. } => QD {
            v,
            g: g.iter().map(|(n, c)| (n.clone(), c.get())).collect(),
            h: if order == 2 {
                h.iter()
                    .map(|(i, j, c)| (g[*i].0.clone(), g[*j].0.clone(), c.get()))
                    .collect()
            } else {
                vec![]
            },
        },
    }
}

fn qd_grad(q: &QD, x: &str) -> f64 {
    q.g.iter().find(|(n, _)| n == x).map(|(_, c)| *c).unwrap_or(0.0)
}
fn qd_hess(q: &QD, x: &str, y: &str) -> f64 {
    q.h.iter()
        .find(|(a, b, _)| (a == x && b == y) || (a == y && b == x))
        .map(|(_, _, c)| *c)
        .unwrap_or(0.0)
}

// ------------------------------------------------------------------ execution

pub fn to_fxrate(q: &Quote) -> Result<FXRate, Fail> {
    let num = q
        .num
        .to_number()
        .map_err(|e| HarnessError(format!("plan number not constructible: {}", e)))?;
    FXRate::try_new(&q.lhs, &q.rhs, num, settle_ndt(q.settle, q.tod))
        .map_err(|_| HarnessError(format!("FXRate::try_new refused {}{}", q.lhs, q.rhs)).into())
}

/// Quotes to FXRate values; with `share`, all Dual (and all Dual2) quotes are re-expressed
/// on one shared variable list each, so that operands arrive with pointer-equal storage
/// and zero-padded coefficients.
pub fn to_fxrates(qs: &[Quote], share: bool) -> Result<Vec<FXRate>, Fail> {
    use rateslib::dual::{Dual, Dual2, Vars};
    if !share {
        return qs.iter().map(to_fxrate).collect();
    }
    let mut n1: Vec<String> = Vec::new();
    let mut n2: Vec<String> = Vec::new();
    for q in qs {
        match &q.num {
            Num::D { g, .. } => {
                for (nm, _) in g {
                    if !n1.contains(nm) {
                        n1.push(nm.clone());
                    }
                }
            }
            Num::D2 { g, .. } => {
                for (nm, _) in g {
                    if !n2.contains(nm) {
                        n2.push(nm.clone());
                    }
                }
            }
            _ => {}
        }
    }
    let a1 = Dual::new(0.0, n1);
    let a2 = Dual2::new(0.0, n2);
    let mut out = Vec::new();
    for q in qs {
        let num = q
            .num
            .to_number()
            .map_err(|e| HarnessError(format!("plan number not constructible: {}", e)))?;
        let num = match num {
            Number::Dual(d) => Number::Dual(d.to_new_vars(a1.vars(), None)),
            Number::Dual2(d) => Number::Dual2(d.to_new_vars(a2.vars(), None)),
            other => other,
        };
        out.push(
            FXRate::try_new(&q.lhs, &q.rhs, num, settle_ndt(q.settle, q.tod)).map_err(|_| {
                Fail::Harness(HarnessError(format!("FXRate::try_new refused {}{}", q.lhs, q.rhs)))
            })?,
        );
    }
    Ok(out)
}

pub fn ccy(name: &str) -> Result<Ccy, Fail> {
    Ccy::try_new(name).map_err(|_| HarnessError(format!("Ccy::try_new refused {}", name)).into())
}

fn v(sig: &str, ctx: &str, msg: String) -> Fail {
    Fail::Violation(Violation::new(
        P,
        format!("{}|{}|after-{}", P, sig, ctx),
        msg,
    ))
}

struct Market {
    fx: FXRates,
    model: Model,
}

/// digest of all n^2 rates (bit level, canonical)
fn market_digest(m: &Market) -> Result<u64, Fail> {
    let mut h = Fnv::new();
    for a in &m.model.ccys {
        for b in &m.model.ccys {
            let (ca, cb) = (ccy(a)?, ccy(b)?);
            match call(P, "FXRates::rate", || m.fx.rate(&ca, &cb))? {
                Some(n) => digest_number(&mut h, &n),
                None => h.u64(0xdead),
            }
        }
    }
    Ok(h.finish())
}

fn all_values(m: &Market) -> Result<Vec<f64>, Fail> {
    let mut out = Vec::new();
    for a in &m.model.ccys {
        for b in &m.model.ccys {
            let (ca, cb) = (ccy(a)?, ccy(b)?);
            match call(P, "FXRates::rate", || m.fx.rate(&ca, &cb))? {
                Some(n) => out.push(see(&n).real),
                None => out.push(f64::NAN),
            }
        }
    }
    Ok(out)
}

/// Full probe of one market against its model. `ctx` = kind of the last operation.
fn probe(m: &Market, ctx: &str, step: usize, obs: &mut Obs) -> Result<(), Fail> {
    let model = &m.model;
    let n = model.ccys.len();
    // a currency outside the market yields None
    let out = ccy("xxx")?;
    let c0 = ccy(&model.ccys[0])?;
    if call(P, "FXRates::rate", || m.fx.rate(&out, &c0))?.is_some()
        || call(P, "FXRates::rate", || m.fx.rate(&c0, &out))?.is_some()
    {
        return Err(v(
            "outside-currency-has-rate",
            ctx,
            "rate() returned Some for a currency not in the market".into(),
        ));
    }

    let mut kind_seen: Option<u8> = None;
    let mut h = Fnv::new();
    // if ANY cross of the market is beyond 1e+-90, intermediate reciprocals of the
    // triangulation may under/overflow in their second-order terms: no Hessian verdicts
    let hessian_off = {
        let sum_abs_log: f64 = model
            .quotes
            .iter()
            .map(|q| q.num.value().abs().log10().abs())
            .sum();
        sum_abs_log > 90.0
    };
    for i in 0..n {
        let paths = model.paths_from(i);
        for j in 0..n {
            let (ca, cb) = (ccy(&model.ccys[i])?, ccy(&model.ccys[j])?);
            let num = match call(P, "FXRates::rate", || m.fx.rate(&ca, &cb))? {
                Some(x) => x,
                None => {
                    return Err(v(
                        "missing-rate",
                        ctx,
                        format!("rate({},{}) is None", model.ccys[i], model.ccys[j]),
                    ))
                }
            };
            digest_number(&mut h, &num);
            let s = see(&num);
            if s.vars.len() >= 128 {
                obs.count(if s.kind == 2 {
                    "reach.second_order_rate_on_128_or_more_variables"
                } else {
                    "reach.rate_on_128_or_more_variables"
                });
            }
            match kind_seen {
                None => kind_seen = Some(s.kind),
                Some(k) => {
                    if k != s.kind {
                        return Err(v(
                            "mixed-kinds",
                            ctx,
                            format!(
                                "rates of different derivative kinds in one market ({} vs {})",
                                k, s.kind
                            ),
                        ));
                    }
                }
            }
            if let Some(k) = model.explicit_order {
                if s.kind != k {
                    return Err(v(
                        "kind-after-set-order",
                        ctx,
                        format!(
                            "after set_ad_order({}) rate({},{}) has derivative kind {}",
                            k, model.ccys[i], model.ccys[j], s.kind
                        ),
                    ));
                }
            }
            let order = s.kind;
            let path = paths[j].as_ref().ok_or_else(|| {
                HarnessError("model market is not connected (bad plan)".to_string())
            })?;
            let label = format!("{}{}", model.ccys[i], model.ccys[j]);

            // ---- value
            let qd: Vec<(QD, i8)> = path
                .iter()
                .map(|(k, sgn)| (quote_data(&model.quotes[*k], order), *sgn))
                .collect();
            let mut cross = Em::exact(1.0);
            for (q, sgn) in &qd {
                cross = if *sgn > 0 {
                    cross.mul(Em::leaf(q.v))
                } else {
                    cross.mul(Em::leaf(q.v).recip())
                };
            }
            if !cross.close(s.real) {
                return Err(v(
                    "value",
                    ctx,
                    format!(
                        "step {}: rate {} = {:e}, path product of latest quotes = {:e}",
                        step, label, s.real, cross.x
                    ),
                ));
            }
            if i == j && s.real != 1.0 {
                return Err(v(
                    "diagonal",
                    ctx,
                    format!("rate {} = {:e}, not exactly 1", label, s.real),
                ));
            }
            if path.len() == 1 && path[0].1 > 0 {
                let qv = model.quotes[path[0].0].num.value();
                if s.real.to_bits() != qv.to_bits() {
                    return Err(v(
                        "quoted-pair-not-exact",
                        ctx,
                        format!("rate {} = {:e} but it is quoted at {:e}", label, s.real, qv),
                    ));
                }
            }
            if order == 0 {
                continue;
            }

            // ---- names: every variable of the model market, plus whatever the number carries
            let mut all: BTreeSet<String> = BTreeSet::new();
            for q in &model.quotes {
                for (nm, _) in quote_data(q, order).g {
                    all.insert(nm);
                }
            }
            let model_names: Vec<String> = all.iter().cloned().collect();
            for nm in &s.vars {
                if !all.contains(nm) {
                    let g = grad_of(&num, &[nm.clone()])[0];
                    if g != 0.0 {
                        return Err(v(
                            "unknown-variable",
                            ctx,
                            format!(
                                "rate {} carries sensitivity {:e} to '{}', which no quote defines",
                                label, g, nm
                            ),
                        ));
                    }
                }
            }

            // ---- gradient: closed form  d cross/dx = cross * sum_k s_k q_k,x / q_k
            // (on every name; for numbers on thousands of variables on the positions where an
            // index width or a block size could matter, plus a spread)
            let check_idx: Vec<usize> = if model_names.len() <= 2000 {
                (0..model_names.len()).collect()
            } else {
                obs.count("probe.gradient_on_a_sample_of_names");
                let mm = model_names.len();
                let mut pick: BTreeSet<usize> = BTreeSet::new();
                for k in [0usize, 1, 2, 127, 128, 255, 256, 257, 1023, 1024, 4095, 4096, 32_767, 32_768, 32_769, 65_534, 65_535, 65_536, 65_537, 131_071, 131_072] {
                    if k < mm {
                        pick.insert(k);
                    }
                }
                for k in 0..40 {
                    pick.insert((k * 7919 + i * 31 + j * 17 + step * 101) % mm);
                }
                pick.insert(mm - 1);
                pick.insert(mm - 2);
                // positions in NAME order differ from positions in the quote's own list: also
                // take the quote-list positions
                for (q, _) in &qd {
                    for k in [0usize, 255, 256, 32_767, 32_768, 65_534, 65_535, 65_536, 65_537] {
                        if let Some((nm, _)) = q.g.get(k) {
                            if let Ok(xi) = model_names.binary_search(nm) {
                                pick.insert(xi);
                            }
                        }
                    }
                    if let Some((nm, _)) = q.g.last() {
                        if let Ok(xi) = model_names.binary_search(nm) {
                            pick.insert(xi);
                        }
                    }
                }
                pick.into_iter().collect()
            };
            let got = grad_of(&num, &model_names);
            let mut lx: Vec<Em> = vec![Em::zero(); model_names.len()];
            for xi in &check_idx {
                let x = &model_names[*xi];
                let mut l = Em::zero();
                for (q, sgn) in &qd {
                    let c = qd_grad(q, x);
                    if c != 0.0 {
                        let t = Em::leaf(c).div(Em::leaf(q.v));
                        l = if *sgn > 0 { l.add(t) } else { l.sub(t) };
                    }
                }
                lx[*xi] = l;
            }
            // a request that names a variable twice is answered for the de-duplicated list
            if (i + j + step) % 7 == 0 && model_names.len() >= 2 && model_names.len() <= 2000 {
                let mut req: Vec<String> = vec![model_names[0].clone(), model_names[0].clone()];
                req.extend(model_names[1..].iter().cloned());
                let dup = grad_of(&num, &req);
                if dup.len() != got.len() || dup.iter().zip(got.iter()).any(|(a, b)| a.to_bits() != b.to_bits()) {
                    return Err(v(
                        "gradient-with-repeated-name",
                        ctx,
                        format!(
                            "step {}: the gradient of {} asked with '{}' named twice is not the gradient for the de-duplicated list ({} entries vs {})",
                            step, label, model_names[0], dup.len(), got.len()
                        ),
                    ));
                }
            }
            // natural scale of each variable's sensitivity, over ALL quotes of the market:
            // an off-path (true zero) entry may carry rounding residue relative to it, and
            // so may any entry if the implementation reaches a cross through a detour.
            let all_qd: Vec<QD> = model.quotes.iter().map(|q| quote_data(q, order)).collect();
            let mut ax: Vec<f64> = vec![0.0; model_names.len()];
            for xi in &check_idx {
                let x = &model_names[*xi];
                ax[*xi] = all_qd
                    .iter()
                    .map(|q| (qd_grad(q, x) / q.v).abs())
                    .sum::<f64>();
            }
            let cabs = cross.x.abs();
            for xi in check_idx.iter().cloned() {
                let x = &model_names[xi];
                let mut want = cross.mul(lx[xi]);
                want.m += 4.0 * cabs * ax[xi];
                if !want.close(got[xi]) {
                    return Err(v(
                        "gradient",
                        ctx,
                        format!(
                            "step {}: d {}/d {} = {:e}, expected {:e}",
                            step, label, x, got[xi], want.x
                        ),
                    ));
                }
            }
            // the property's own wording for plain-number quotes: +- cross / quote on the
            // path, zero off it, under the name fx_<lhs><rhs>
            for (k, q) in model.quotes.iter().enumerate() {
                if let Num::F(qv) = &q.num {
                    let name = format!("fx_{}{}", q.lhs, q.rhs);
                    // skip if a dual quote happens to share this name
                    let shared = model.quotes.iter().enumerate().any(|(kk, qq)| {
                        kk != k && quote_data(qq, order).g.iter().any(|(nm, _)| nm == &name)
                    });
                    if shared {
                        continue;
                    }
                    let g = grad_of(&num, &[name.clone()])[0];
                    let on_path = path.iter().find(|(kk, _)| *kk == k);
                    match on_path {
                        None => {
                            let zero = Em {
                                x: 0.0,
                                m: 4.0 * (s.real / qv.get()).abs(),
                            };
                            if !zero.close(g) {
                                return Err(v(
                                    "off-path-sensitivity",
                                    ctx,
                                    format!(
                                        "d {}/d {} = {:e} but the quote is not on the path",
                                        label, name, g
                                    ),
                                ));
                            }
                        }
                        Some((_, sgn)) => {
                            let want = Em::leaf(s.real).div(Em::leaf(qv.get()));
                            let want = if *sgn > 0 { want } else { want.neg() };
                            if !want.close(g) {
                                return Err(v(
                                    "closed-form-gradient",
                                    ctx,
                                    format!(
                                        "d {}/d {} = {:e}, expected {}cross/quote = {:e}",
                                        label,
                                        name,
                                        g,
                                        if *sgn > 0 { "+" } else { "-" },
                                        want.x
                                    ),
                                ));
                            }
                        }
                    }
                }
            }
            if order < 2 {
                continue;
            }
            // far outside any sensible regime the cubes that second derivatives of a
            // reciprocal need under- or overflow: values and gradients only
            let extreme = |x: f64| x != 0.0 && !(1e-90..=1e90).contains(&x.abs());
            if extreme(cross.x) || qd.iter().any(|(q, _)| extreme(q.v)) || hessian_off {
                obs.count("skipped.hessian_in_extreme_regime");
                continue;
            }

            // ---- Hessian: cross * ( Lx Ly + sum_k s_k ( q_k,xy/q_k - q_k,x q_k,y / q_k^2 ) )
            // the names whose second derivatives are compared: all of them, or for markets
            // on very many variables every variable that two quotes share, the first two of
            // each quote on the path and a rotating spread of the rest (values and ALL
            // first-order sensitivities are compared above in any case)
            let hidx: Vec<usize> = if model_names.len() <= 48 {
                (0..model_names.len()).collect()
            } else {
                obs.count("probe.hessian_on_a_subset_of_names");
                let mut pick: BTreeSet<usize> = BTreeSet::new();
                for (xi, x) in model_names.iter().enumerate() {
                    let users = all_qd.iter().filter(|q| qd_grad(q, x) != 0.0).count();
                    if users >= 2 && pick.len() < 12 {
                        pick.insert(xi);
                    }
                }
                for (q, _) in &qd {
                    for (nm, _) in q.g.iter().take(2) {
                        if let Ok(xi) = model_names.binary_search(nm) {
                            pick.insert(xi);
                        }
                    }
                }
                let mm = model_names.len();
                for r in 0..10 {
                    pick.insert((r * mm / 10 + i * 7 + j * 3 + step) % mm);
                }
                pick.into_iter().collect()
            };
            let hnames: Vec<String> = hidx.iter().map(|k| model_names[*k].clone()).collect();
            let m_ = hnames.len();
            let goth = hess_of(&num, &hnames).unwrap();
            let mut hm = vec![0.0_f64; m_ * m_];
            for a in 0..m_ {
                for b in 0..m_ {
                    let (x, y) = (&hnames[a], &hnames[b]);
                    let (ia, ib) = (hidx[a], hidx[b]);
                    let mut t = lx[ia].mul(lx[ib]);
                    for (q, sgn) in &qd {
                        let (gx, gy, hxy) = (qd_grad(q, x), qd_grad(q, y), qd_hess(q, x, y));
                        if gx == 0.0 && gy == 0.0 && hxy == 0.0 {
                            continue;
                        }
                        let qv = Em::leaf(q.v);
                        let term = Em::leaf(hxy)
                            .div(qv)
                            .sub(Em::leaf(gx).mul(Em::leaf(gy)).div(qv.mul(qv)));
                        t = if *sgn > 0 { t.add(term) } else { t.sub(term) };
                    }
                    let mut want = cross.mul(t);
                    let hfloor: f64 = all_qd
                        .iter()
                        .map(|q| {
                            (qd_hess(q, x, y) / q.v).abs()
                                + (qd_grad(q, x) * qd_grad(q, y) / (q.v * q.v)).abs()
                        })
                        .sum::<f64>()
                        + ax[ia] * ax[ib];
                    want.m += 4.0 * cabs * hfloor;
                    hm[a * m_ + b] = want.m;
                    let gotv = goth[a * m_ + b];
                    if !want.close(gotv) {
                        return Err(v(
                            "hessian",
                            ctx,
                            format!(
                                "step {}: d2 {}/d {} d {} = {:e}, expected {:e}",
                                step, label, x, y, gotv, want.x
                            ),
                        ));
                    }
                    let sym = Em {
                        x: goth[b * m_ + a],
                        m: want.m,
                    };
                    if !sym.close(goth[a * m_ + b]) {
                        return Err(v(
                            "hessian-asymmetric",
                            ctx,
                            format!("Hessian of {} not symmetric in ({},{})", label, x, y),
                        ));
                    }
                }
            }

            // ---- second, independent oracle on a deterministic subset of pairs:
            // the same product evaluated step by step in the reference AD
            // (name-keyed maps: on markets of a hundred and more variables only the short
            // paths are affordable; the closed form above covers every pair)
            if (i * 7 + j * 3 + step) % 5 == 0
                && i != j
                && (model_names.len() <= 60 || (path.len() <= 2 && model_names.len() <= 400))
            {
                let mut r = R::exact(1.0);
                for (k, sgn) in path {
                    let q = quote_data(&model.quotes[*k], order);
                    let rq = R::with(q.v, &q.g, &q.h);
                    r = if *sgn > 0 { r.mul(&rq) } else { r.mul(&rq.recip()) };
                }
                obs.count("probe.refad_pairs");
                for (xi, x) in model_names.iter().enumerate() {
                    let mut rg = r.grad(x);
                    rg.m += 4.0 * cabs * ax[xi] + cross.m * ax[xi];
                    if !rg.close(got[xi]) {
                        return Err(v(
                            "gradient-refad",
                            ctx,
                            format!(
                                "d {}/d {} = {:e}, reference AD gives {:e}",
                                label,
                                x,
                                got[xi],
                                r.grad(x).x
                            ),
                        ));
                    }
                }
                for (xi, x) in hnames.iter().enumerate() {
                    for (yi, y) in hnames.iter().enumerate() {
                        let mut rh = r.hess(x, y);
                        rh.m += hm[xi * m_ + yi];
                        if !rh.close(goth[xi * m_ + yi]) {
                            return Err(v(
                                "hessian-refad",
                                ctx,
                                format!(
                                    "d2 {}/d {} d {} = {:e}, reference AD gives {:e}",
                                    label,
                                    x,
                                    y,
                                    goth[xi * m_ + yi],
                                    r.hess(x, y).x
                                ),
                            ));
                        }
                    }
                }
            }
        }
    }
    obs.count_n("probe.pairs", (n * n) as u64);
    obs.event(&format!("probe-after-{}", ctx), h.finish());
    Ok(())
}

fn differential(m: &Market, ctx: &str) -> Result<(), Fail> {
    // a market built directly from the latest quotes (original order and base)
    let rates: Vec<FXRate> = to_fxrates(&m.model.quotes, m.model.share_vars)?;
    let base = match &m.model.base {
        Some(b) => Some(ccy(b)?),
        None => None,
    };
    let fresh = match call(P, "FXRates::try_new", || FXRates::try_new(rates, base))? {
        Ok(f) => f,
        Err(_) => {
            return Err(HarnessError(
                "fresh market from model quotes was refused (bad plan)".into(),
            )
            .into())
        }
    };
    for a in &m.model.ccys {
        for b in &m.model.ccys {
            let (ca, cb) = (ccy(a)?, ccy(b)?);
            let x = call(P, "FXRates::rate", || m.fx.rate(&ca, &cb))?;
            let y = call(P, "FXRates::rate", || fresh.rate(&ca, &cb))?;
            match (x, y) {
                (Some(x), Some(y)) => {
                    let (xr, yr) = (see(&x).real, see(&y).real);
                    let tol = Em {
                        x: yr,
                        m: 32.0 * yr.abs(),
                    };
                    if !tol.close(xr) {
                        return Err(v(
                            "differs-from-fresh-market",
                            ctx,
                            format!(
                                "rate {}{} = {:e} but a market built from the latest quotes gives {:e}",
                                a, b, xr, yr
                            ),
                        ));
                    }
                }
                _ => {
                    return Err(v(
                        "differs-from-fresh-market",
                        ctx,
                        format!("rate {}{} missing in updated or fresh market", a, b),
                    ))
                }
            }
        }
    }
    Ok(())
}

pub fn execute(plan: &Plan, obs: &mut Obs) -> Result<(), Fail> {
    if plan.setup.quotes.is_empty() {
        return Err(HarnessError("empty market in plan".into()).into());
    }
    let rates: Vec<FXRate> = to_fxrates(&plan.setup.quotes, plan.setup.share_vars)?;
    let base = match &plan.setup.base {
        Some(b) => Some(ccy(b)?),
        None => None,
    };
    let fx = match call(P, "FXRates::try_new", || FXRates::try_new(rates, base))? {
        Ok(f) => f,
        Err(_) => {
            return Err(HarnessError("setup market refused by try_new (bad plan)".into()).into())
        }
    };
    let mut mk: Vec<Market> = vec![Market {
        fx,
        model: Model::new(&plan.setup),
    }];
    if mk[0].model.ccys.len() > 12 {
        obs.count("reach.market_larger_than_12_currencies");
    }
    if plan.setup.share_vars {
        obs.count("reach.quotes_with_pointer_shared_variable_lists");
    }
    if plan
        .setup
        .quotes
        .iter()
        .any(|q| q.tod.is_some() || q.settle.map(|d| !(10957..=22000).contains(&d)).unwrap_or(false))
    {
        obs.count("reach.unusual_settlement_datetime");
    }
    probe(&mk[0], "init", 0, obs)?;
    let mut refusals_since_success = 0u64;
    let mut order_changed_since_update = false;

    for (si, step) in plan.steps.iter().enumerate() {
        let stepno = si + 1;
        // digest of the market(s) NOT targeted, to show they are undisturbed
        let tgt = |t: u8, len: usize| -> usize {
            if t == 1 && len > 1 {
                1
            } else {
                0
            }
        };
        let ctx: &str;
        let target: Option<usize>;
        let other_before: Option<(usize, u64)>;
        match step {
            Step::Sibling { base } => {
                let mut model = mk[0].model.clone();
                let b = base.as_ref().map(|b| b.to_lowercase());
                model = Model::new(&Setup {
                    quotes: model.quotes.clone(),
                    base: b.clone(),
                    share_vars: model.share_vars,
                });
                let rates: Vec<FXRate> = to_fxrates(&model.quotes, model.share_vars)?;
                let bc = match &b {
                    Some(b) => Some(ccy(b)?),
                    None => None,
                };
                let fx = match call(P, "FXRates::try_new", || FXRates::try_new(rates, bc))? {
                    Ok(f) => f,
                    Err(_) => {
                        return Err(v(
                            "valid-market-refused",
                            "sibling",
                            format!("step {}: a market of the current quotes under base {:?} was refused", stepno, b),
                        ))
                    }
                };
                let sib = Market { fx, model };
                probe(&sib, "sibling", stepno, obs)?;
                obs.count("op.sibling_market_with_another_base");
                if b != mk[0].model.base {
                    obs.count("reach.sibling_market_same_pairs_other_base");
                }
                ctx = "sibling";
                target = None;
                other_before = None;
            }
            Step::Fork => {
                let c = call(P, "FXRates::clone", || mk[0].fx.clone())?;
                let model = mk[0].model.clone();
                if mk.len() > 1 {
                    mk[1] = Market { fx: c, model };
                } else {
                    mk.push(Market { fx: c, model });
                }
                obs.count("op.fork");
                ctx = "fork";
                target = None;
                other_before = None;
            }
            Step::SetOrder { target: t, order } => {
                let ti = tgt(*t, mk.len());
                other_before = if mk.len() > 1 {
                    Some((1 - ti, market_digest(&mk[1 - ti])?))
                } else {
                    None
                };
                let before = all_values(&mk[ti])?;
                let o = order_of(*order);
                let r = call(P, "FXRates::set_ad_order", || mk[ti].fx.set_ad_order(o))?;
                if r.is_err() {
                    return Err(v(
                        "set-order-error",
                        "set_order",
                        format!("set_ad_order({}) returned an error on a valid market", order),
                    ));
                }
                mk[ti].model.explicit_order = Some(*order);
                let after = all_values(&mk[ti])?;
                for (b, a) in before.iter().zip(after.iter()) {
                    let tol = Em {
                        x: *b,
                        m: 64.0 * b.abs(),
                    };
                    if !tol.close(*a) {
                        return Err(v(
                            "set-order-moved-value",
                            "set_order",
                            format!(
                                "step {}: set_ad_order({}) moved a rate from {:e} to {:e}",
                                stepno, order, b, a
                            ),
                        ));
                    }
                }
                obs.count(&format!("op.set_order.{}", order));
                order_changed_since_update = true;
                ctx = "set_order";
                target = Some(ti);
            }
            Step::Update { target: t, items } => {
                let ti = tgt(*t, mk.len());
                other_before = if mk.len() > 1 {
                    Some((1 - ti, market_digest(&mk[1 - ti])?))
                } else {
                    None
                };
                let rs_items: Vec<FXRate> = to_fxrates(items, plan.setup.share_vars)?;
                let expect = mk[ti].model.expect_update(items);
                let snapshot = call(P, "FXRates::clone", || mk[ti].fx.clone())?;
                let before = market_digest(&mk[ti])?;
                let r = call(P, "FXRates::update", || mk[ti].fx.update(rs_items))?;
                match (expect, r) {
                    (Expect::Accept(qs), Ok(())) => {
                        // reach probes for the rarer kinds of update
                        if items.is_empty() {
                            obs.count("reach.empty_update");
                        }
                        if items.len() > 32 {
                            obs.count("reach.update_batch_over_32_entries");
                        }
                        if items.len() > 64 {
                            obs.count("reach.update_batch_over_64_entries");
                        }
                        if items.iter().enumerate().any(|(i, a)| {
                            items[..i].iter().any(|b| a.lhs == b.lhs && a.rhs == b.rhs)
                        }) {
                            obs.count("reach.pair_named_twice_in_one_update");
                        }
                        if items.iter().any(|it| {
                            mk[ti].model.quotes.iter().any(|q| {
                                q.lhs == it.lhs
                                    && q.rhs == it.rhs
                                    && q.num.value().to_bits() == it.num.value().to_bits()
                                    && q.num != it.num
                            })
                        }) {
                            obs.count("reach.remark_at_same_level_with_other_kind");
                        }
                        if !items.is_empty()
                            && items.len() == mk[ti].model.quotes.len()
                            && (items[0].settle != mk[ti].model.quotes[0].settle
                                || items[0].tod != mk[ti].model.quotes[0].tod)
                        {
                            obs.count("reach.whole_market_redated");
                        }
                        mk[ti].model.quotes = qs;
                        mk[ti].model.explicit_order = None;
                        obs.count("op.update.accepted");
                        if order_changed_since_update {
                            obs.count("reach.update_after_order_change");
                        }
                        if refusals_since_success > 0 {
                            obs.count("reach.success_after_refusal");
                        }
                        refusals_since_success = 0;
                        order_changed_since_update = false;
                        ctx = "update";
                        differential(&mk[ti], ctx)?;
                    }
                    (Expect::Accept(_), Err(_)) => {
                        return Err(v(
                            "valid-update-refused",
                            "update",
                            format!(
                                "step {}: an update naming only known pairs with consistent settlement was refused",
                                stepno
                            ),
                        ));
                    }
                    (ex, Err(_)) => {
                        let kind = match ex {
                            Expect::RefuseUnknown => "unknown",
                            _ => "late",
                        };
                        obs.count(&format!("fault.REFUSE_{}", kind.to_uppercase()));
                        refusals_since_success += 1;
                        ctx = if kind == "unknown" {
                            "refuse_unknown"
                        } else {
                            "refuse_late"
                        };
                        let same = call(P, "FXRates::eq", || mk[ti].fx == snapshot)?;
                        // a market in the far regime may hold NaN second-order terms (inf - inf
                        // inside the library's own reciprocal rule); `==` is then false even
                        // between a market and its untouched clone: no verdict from `==` there
                        let same = if same {
                            true
                        } else {
                            let reflexive = call(P, "FXRates::eq", || {
                                let c = snapshot.clone();
                                c == snapshot
                            })?;
                            if !reflexive {
                                obs.count("skipped.equality_of_market_holding_nan");
                            }
                            !reflexive
                        };
                        let after = market_digest(&mk[ti])?;
                        if !same || after != before {
                            return Err(v(
                                "refused-update-changed-state",
                                ctx,
                                format!(
                                    "step {}: a refused update ({}) changed the market (eq={}, rates identical={})",
                                    stepno,
                                    kind,
                                    same,
                                    after == before
                                ),
                            ));
                        }
                    }
                    (ex, Ok(())) => {
                        let kind = match ex {
                            Expect::RefuseUnknown => "unknown-pair",
                            _ => "inconsistent-settlement",
                        };
                        return Err(v(
                            &format!("bad-update-accepted-{}", kind),
                            "update",
                            format!(
                                "step {}: an update that must be refused ({}) was accepted",
                                stepno, kind
                            ),
                        ));
                    }
                }
                target = Some(ti);
            }
        }
        // invariants after every step, on every market
        for (mi, m) in mk.iter().enumerate() {
            probe(m, ctx, stepno, obs)?;
            if let Some((oi, d)) = other_before {
                if oi == mi && Some(mi) != target {
                    let now = market_digest(m)?;
                    if now != d {
                        return Err(v(
                            "replica-disturbed",
                            ctx,
                            format!(
                                "step {}: an operation on one market changed its clone",
                                stepno
                            ),
                        ));
                    }
                    obs.count("probe.replica_unchanged");
                }
            }
        }
        // abstract state for coverage
        for m in &mk {
            let mut h = Fnv::new();
            h.u64(m.model.ccys.len() as u64);
            h.u64(m.model.explicit_order.map(|x| x as u64 + 1).unwrap_or(0));
            h.str(ctx);
            h.u64(refusals_since_success.min(3));
            let kinds: u64 = m
                .model
                .quotes
                .iter()
                .fold(0u64, |a, q| a | (1 << q.num.kind()));
            h.u64(kinds);
            h.u64(mk.len() as u64);
            obs.state(h.finish());
        }
    }
    Ok(())
}

// ------------------------------------------------------------------ shrinking

/// Simpler values, strictly decreasing in a fixed order so that shrinking cannot cycle.
pub fn simpler_values(v: f64) -> Vec<f64> {
    const SIMPLE: [f64; 3] = [1.0, 2.0, 0.5];
    let pos = SIMPLE.iter().position(|c| *c == v).unwrap_or(SIMPLE.len());
    SIMPLE[..pos].to_vec()
}

fn simplify_num(n: &Num) -> Vec<Num> {
    let mut out = Vec::new();
    match n {
        Num::F(v) => {
            for c in simpler_values(v.get()) {
                out.push(Num::F(Fx::new(c)));
            }
        }
        Num::D { v, g } => {
            out.push(Num::F(*v));
            if g.len() > 1 {
                for i in 0..g.len() {
                    let mut g2 = g.clone();
                    g2.remove(i);
                    out.push(Num::D { v: *v, g: g2 });
                }
            }
            for c in simpler_values(v.get()) {
                out.push(Num::D {
                    v: Fx::new(c),
                    g: g.clone(),
                });
            }
            for i in 0..g.len() {
                for c in simpler_values(g[i].1.get()) {
                    let mut g2 = g.clone();
                    g2[i].1 = Fx::new(c);
                    out.push(Num::D { v: *v, g: g2 });
                }
            }
        }
        Num::D2 { v, g, h } => {
            out.push(Num::F(*v));
            out.push(Num::D {
                v: *v,
                g: g.clone(),
            });
            if !h.is_empty() {
                out.push(Num::D2 {
                    v: *v,
                    g: g.clone(),
                    h: vec![],
                });
                if h.len() > 1 {
                    for i in 0..h.len() {
                        let mut h2 = h.clone();
                        h2.remove(i);
                        out.push(Num::D2 {
                            v: *v,
                            g: g.clone(),
                            h: h2,
                        });
                    }
                }
            }
            for c in simpler_values(v.get()) {
                out.push(Num::D2 {
                    v: Fx::new(c),
                    g: g.clone(),
                    h: h.clone(),
                });
            }
        }
    }
    out
}

pub fn shrink(plan: &Plan) -> Vec<Plan> {
    let mut out = Vec::new();
    // drop steps (suffix first: cheapest big win)
    let n = plan.steps.len();
    if n > 1 {
        let mut p = plan.clone();
        p.steps.truncate(n / 2);
        out.push(p);
    }
    for i in (0..n).rev() {
        let mut p = plan.clone();
        p.steps.remove(i);
        out.push(p);
    }
    // drop a leaf currency (a quote whose removal keeps the rest connected)
    if plan.setup.quotes.len() > 1 {
        for qi in 0..plan.setup.quotes.len() {
            let q = &plan.setup.quotes[qi];
            for leaf in [&q.lhs, &q.rhs] {
                let deg = plan
                    .setup
                    .quotes
                    .iter()
                    .filter(|x| &x.lhs == leaf || &x.rhs == leaf)
                    .count();
                if deg == 1 && plan.setup.base.as_ref() != Some(leaf) {
                    let mut p = plan.clone();
                    p.setup.quotes.remove(qi);
                    out.push(p);
                }
            }
        }
    }
    if plan.setup.base.is_some() {
        let mut p = plan.clone();
        p.setup.base = None;
        out.push(p);
    }
    // drop items from updates
    for (si, s) in plan.steps.iter().enumerate() {
        if let Step::Update { items, target } = s {
            if items.len() > 1 {
                for ii in 0..items.len() {
                    let mut it = items.clone();
                    it.remove(ii);
                    let mut p = plan.clone();
                    p.steps[si] = Step::Update {
                        target: *target,
                        items: it,
                    };
                    out.push(p);
                }
            }
        }
    }
    // simplify numbers in setup and steps
    for qi in 0..plan.setup.quotes.len() {
        for nn in simplify_num(&plan.setup.quotes[qi].num) {
            let mut p = plan.clone();
            p.setup.quotes[qi].num = nn;
            out.push(p);
        }
    }
    for (si, s) in plan.steps.iter().enumerate() {
        if let Step::Update { items, target } = s {
            for ii in 0..items.len() {
                for nn in simplify_num(&items[ii].num) {
                    let mut it = items.clone();
                    it[ii].num = nn;
                    let mut p = plan.clone();
                    p.steps[si] = Step::Update {
                        target: *target,
                        items: it,
                    };
                    out.push(p);
                }
            }
        }
        if let Step::SetOrder { target, order } = s {
            if *target != 0 {
                let mut p = plan.clone();
                p.steps[si] = Step::SetOrder {
                    target: 0,
                    order: *order,
                };
                out.push(p);
            }
        }
    }
    // settlement: drop all dates
    if plan.setup.quotes.iter().any(|q| q.settle.is_some()) {
        let mut p = plan.clone();
        for q in p.setup.quotes.iter_mut() {
            q.settle = None;
            q.tod = None;
        }
        for s in p.steps.iter_mut() {
            if let Step::Update { items, .. } = s {
                for it in items.iter_mut() {
                    // keep "late" items different from the market: None -> Some stays Some
                    if it.settle.is_some() {
                        it.settle = None;
                        it.tod = None;
                    }
                }
            }
        }
        out.push(p);
    }
    out
}

/// Very large but otherwise ordinary histories (contents are a fixed function of `which`
/// and a salt): 0 = a first-order quote on 70,000 variables next to a small one; 1 = update
/// lists of 40,000 and of 70,001 ticks over three pairs; 2 = a second-order chain of six
/// currencies whose quotes carry 300 private variables each, with a refused update.
fn big_plan(which: usize, salt: u64) -> Plan {
    let mut rng = Rng::new(salt);
    let q = |l: &str, r: &str, num: Num| Quote {
        lhs: l.into(),
        rhs: r.into(),
        num,
        settle: None,
        tod: None,
    };
    let many = |prefix: &str, n: usize, second: bool, v: f64| -> Num {
        let g: Vec<(String, Fx)> = (0..n)
            .map(|i| (format!("{}{}", prefix, i), Fx::new(0.25 + 0.125 * ((i * 7) % 13) as f64)))
            .collect();
        if second {
            let mut h = Vec::new();
            for i in 0..n.min(40) {
                h.push((i, i, Fx::new(0.1 * v)));
                if i + 1 < n {
                    h.push((i, i + 1, Fx::new(-0.05 * v)));
                }
            }
            Num::D2 { v: Fx::new(v), g, h }
        } else {
            Num::D { v: Fx::new(v), g }
        }
    };
    match which {
        0 => {
            let quotes = vec![
                q("eur", "usd", many("v", 70_000, false, 1.0836)),
                q("usd", "jpy", Num::D {
                    v: Fx::new(151.25),
                    g: vec![("v3".into(), Fx::new(2.0)), ("w".into(), Fx::new(0.5)), ("v69999".into(), Fx::new(-1.5))],
                }),
            ];
            let steps = vec![
                Step::Update { target: 0, items: vec![q("usd", "jpy", Num::D { v: Fx::new(150.0 + rng.unit()), g: vec![("w".into(), Fx::new(1.0))] })] },
                Step::SetOrder { target: 0, order: 1 },
            ];
            Plan { setup: Setup { quotes, base: None, share_vars: false }, steps }
        }
        1 => {
            let quotes = vec![
                q("eur", "usd", Num::F(Fx::new(1.08))),
                q("usd", "jpy", Num::F(Fx::new(151.0))),
                q("gbp", "usd", Num::F(Fx::new(1.27))),
            ];
            let batch = |rng: &mut Rng, n: usize| -> Vec<Quote> {
                (0..n)
                    .map(|i| match i % 3 {
                        0 => q("eur", "usd", Num::F(Fx::new(1.05 + 0.06 * rng.unit()))),
                        1 => q("usd", "jpy", Num::F(Fx::new(145.0 + 10.0 * rng.unit()))),
                        _ => q("gbp", "usd", Num::F(Fx::new(1.2 + 0.1 * rng.unit()))),
                    })
                    .collect()
            };
            let steps = vec![
                Step::Update { target: 0, items: batch(&mut rng, 40_000) },
                Step::SetOrder { target: 0, order: 1 },
                Step::Update { target: 0, items: batch(&mut rng, 70_001) },
            ];
            Plan { setup: Setup { quotes, base: Some("usd".into()), share_vars: false }, steps }
        }
        _ => {
            let c = ["eur", "usd", "jpy", "gbp", "chf", "cad"];
            let quotes: Vec<Quote> = (0..5)
                .map(|i| q(c[i], c[i + 1], many(&format!("q{}_", i), 300, true, 0.8 + 0.3 * i as f64)))
                .collect();
            let mut late = quotes[2].clone();
            late.settle = Some(19_000);
            late.num = late.num.with_value(1.5);
            let mut ok = quotes[1].clone();
            ok.num = ok.num.with_value(1.2 + 0.1 * rng.unit());
            let steps = vec![
                Step::SetOrder { target: 0, order: 2 },
                Step::Update { target: 0, items: vec![late] },
                Step::Update { target: 0, items: vec![ok] },
            ];
            Plan { setup: Setup { quotes, base: None, share_vars: false }, steps }
        }
    }
}

pub struct C10;

impl Scenario for C10 {
    type Plan = Plan;
    const ID: &'static str = "C10";
    const BARE_PASS: bool = true;
    const LEVEL: &'static str = "exploration";

    fn units(tier: Tier) -> u64 {
        match tier {
            Tier::Quick => 30_000,
            Tier::Thorough => 300_000,
        }
    }
    fn unit(seed: u64, tier: Tier, unit: u64, sink: &mut dyn FnMut(Plan) -> bool) {
        // the size ladder: three fixed very large histories, spread over the unit range
        let stride = (Self::units(tier) / 17).max(1);
        if unit % stride == 13 && unit / stride < 3 {
            sink(big_plan((unit / stride) as usize, mix(seed, "C10-big", unit)));
            return;
        }
        let mut rng = Rng::new(mix(seed, "C10", unit));
        sink(generate(&mut rng, tier));
    }
    fn budget(plan: &Plan) -> u64 {
        let big_vars = plan.setup.quotes.iter().any(|q| match &q.num {
            Num::D { g, .. } | Num::D2 { g, .. } => g.len() > 100,
            _ => false,
        });
        let big_batch = plan.steps.iter().any(|s| matches!(s, Step::Update { items, .. } if items.len() > 1000));
        if big_vars || big_batch {
            30
        } else {
            1
        }
    }
    fn execute(plan: &Plan, obs: &mut Obs) -> Result<(), Fail> {
        execute(plan, obs)
    }
    fn shrink(plan: &Plan) -> Vec<Plan> {
        shrink(plan)
    }
    fn nontrivial(plan: &Plan) -> bool {
        // at least one order change, and at least two updates
        let so = plan
            .steps
            .iter()
            .any(|s| matches!(s, Step::SetOrder { .. }));
        let up = plan
            .steps
            .iter()
            .filter(|s| matches!(s, Step::Update { .. }))
            .count();
        so && up >= 2
    }
    fn label(_plan: &Plan) -> String {
        "FXRates history".into()
    }
    fn rule() -> String {
        "one evaluation = one seeded history (setup market of 2..12 currencies (2 % of markets 13..24) as a random/chain/star tree with float, Dual and Dual2 quotes, round and coinciding values, optionally pointer-shared variable lists, settlement datetimes over years 1..9999; then 4..26 steps (1 % of small markets 60..200) of update (incl. same-level re-marks with another number kind, whole-market re-dating, empty) / set_ad_order / refused update (unknown pair, late settlement failure) / clone-to-replica) executed against the real FXRates with a full n^2 probe (value, names, gradient, Hessian vs closed form and reference AD) after every step. Distinct = distinct plan digest; non-trivial = the history contains an order change and at least two updates.".into()
    }
    fn assumptions() -> Vec<String> {
        vec![
            "positive finite quotes in 1e-4..1e4; distinct variable names per number; a user variable may carry the name of a tag (fx_<pair>), also of the quote's own pair".into(),
            "reversed-pair updates are not generated (the property does not state their outcome); a pair named twice in one update is read as: the later entry is the latest quote".into(),
            "numerical agreement is judged with a running first-order error bound (1e5 eps x magnitude of the terms summed), bit-exactness only where the code copies a number".into(),
            "the derivative order left behind by an accepted update is not asserted (not stated by the property)".into(),
            "no thread schedules are sampled: all mutation is behind &mut self (DESIGN 1.2)".into(),
        ]
    }
    fn extra_coverage(_tier: Tier) -> serde_json::Value {
        serde_json::json!({ "state_abstraction": "(number of currencies, explicit derivative order or none, kind of last operation, refusals since last success capped at 3, set of quote kinds present, number of markets)" })
    }
    fn components() -> serde_json::Value {
        serde_json::json!({
            "real": ["rateslib::fx::rates::{FXRates,FXRate,Ccy} (try_new, update, set_ad_order, rate, clone, ==)", "rateslib::dual::{Dual,Dual2,Number} arithmetic and gradient read-back", "ndarray, indexmap, internment"],
            "stub": ["Python layer (pymethods wrappers not executed; embedded interpreter only formats PyErr)"],
            "model": ["tree path-product closed form with log-derivative gradient/Hessian", "name-keyed reference AD (refad.rs) on a deterministic subset of pairs", "fresh FXRates::try_new from the latest quotes (differential)"]
        })
    }
}
