//! Parent/worker process model, evidence, minimisation, replay, known findings, selftests.

use crate::core::*;
use crate::rng::hash_str;
use serde::{Deserialize, Serialize};
use serde_json::{json, Value};
use std::collections::{BTreeMap, BTreeSet, HashSet};
use std::io::{Seek, SeekFrom, Write};
use std::path::{Path, PathBuf};
use std::process::{Child, Command, Stdio};
use std::time::{Duration, Instant};

pub const DEFAULT_SEED: u64 = 20260926;

pub fn seed() -> u64 {
    std::env::var("VERIF_SEED")
        .ok()
        .and_then(|s| s.trim().parse::<u64>().ok())
        .unwrap_or(DEFAULT_SEED)
}

pub fn verif_dir() -> PathBuf {
    PathBuf::from(std::env::var("VERIF_DIR").unwrap_or_else(|_| "/verif".to_string()))
}

fn n_workers() -> usize {
    std::env::var("VERIF_WORKERS")
        .ok()
        .and_then(|s| s.parse::<usize>().ok())
        .filter(|n| *n >= 1)
        .unwrap_or_else(|| {
            std::thread::available_parallelism()
                .map(|n| n.get())
                .unwrap_or(4)
                .min(16)
        })
}

fn scratch_dir() -> PathBuf {
    let d = verif_dir().join("work").join(format!("p{}", std::process::id()));
    std::fs::create_dir_all(&d).expect("cannot create scratch dir");
    d
}

/// A worker of the interpreter-less pass (see `Scenario::BARE_PASS`).
pub fn bare() -> bool {
    std::env::var("VERIF_BARE").map(|v| v == "1").unwrap_or(false)
}

fn init_python() {
    if bare() {
        return;
    }
    crate::pyx::init();
}

#[derive(Clone, Debug, Serialize, Deserialize)]
pub struct Found {
    pub property: String,
    /// first unit of the worker process that met the violation (for history replays)
    #[serde(default)]
    pub range_start: u64,
    pub unit: u64,
    /// met in a process without a Python interpreter
    #[serde(default)]
    pub bare: bool,
    pub signature: String,
    pub message: String,
    pub plan: Value,
    pub count: u64,
}

#[derive(Default, Serialize, Deserialize)]
struct WorkerOut {
    units: u64,
    evaluations: u64,
    events: u64,
    nontrivial: Vec<u64>,
    states: Vec<u64>,
    counters: BTreeMap<String, u64>,
    violations: Vec<Found>,
    harness: Vec<String>,
    samples: Vec<Value>,
    digests: Vec<(u64, u64)>,
    wall_s: f64,
}

macro_rules! dispatch {
    ($id:expr, $f:ident ( $($arg:expr),* )) => {
        match $id {
            "C10" => $f::<crate::c10::C10>($($arg),*),
            "C12" => $f::<crate::c12::C12>($($arg),*),
            "C16" => $f::<crate::c16::C16>($($arg),*),
            "C20" => $f::<crate::c20::C20>($($arg),*),
            other => {
                eprintln!("unknown or unclaimed property id '{}'", other);
                2
            }
        }
    };
}

pub const CLAIMED: &[&str] = &["C10", "C12", "C16", "C20"];

// ------------------------------------------------------------------------------- worker

pub fn worker_main(args: &[String]) -> i32 {
    // worker <ID> <tier> <seed> <start> <end> <out> [digests]
    if args.len() < 6 {
        eprintln!("worker: bad arguments");
        return 2;
    }
    let tier = match Tier::parse(&args[1]) {
        Some(t) => t,
        None => return 2,
    };
    let seed: u64 = args[2].parse().unwrap();
    let start: u64 = args[3].parse().unwrap();
    let end: u64 = args[4].parse().unwrap();
    let out = PathBuf::from(&args[5]);
    let digests = args.get(6).map(|s| s == "digests").unwrap_or(false);
    init_python();
    dispatch!(args[0].as_str(), worker(tier, seed, start, end, &out, digests))
}

fn worker<S: Scenario>(
    tier: Tier,
    seed: u64,
    start: u64,
    end: u64,
    out: &Path,
    want_digests: bool,
) -> i32 {
    let t0 = Instant::now();
    let mut obs = Obs::new(false);
    let mut o = WorkerOut::default();
    let mut nontrivial: HashSet<u64> = HashSet::new();
    let mut by_sig: BTreeMap<String, Found> = BTreeMap::new();
    let progress_path = out.with_extension("progress");
    let mut progress = std::fs::File::create(&progress_path).expect("progress file");
    start_watchdog();
    let is_bare = bare();
    for unit in start..end {
        if is_bare && !bare_unit(unit) {
            o.units += 1;
            continue;
        }
        if is_bare {
            obs.count("fault.NO_INTERPRETER");
        }
        let mut first_in_unit = true;
        let mut ordinal = 0u64;
        S::unit(seed, tier, unit, &mut |plan: S::Plan| {
            // which plan is about to run: survives an abort of this process
            let _ = progress.seek(SeekFrom::Start(0));
            let _ = progress.write_all(format!("{:020} {:020}\n", unit, ordinal).as_bytes());
            ordinal += 1;
            BUDGET.store(S::budget(&plan), std::sync::atomic::Ordering::Relaxed);
            HEARTBEAT.fetch_add(1, std::sync::atomic::Ordering::Relaxed);
            o.evaluations += 1;
            obs.reset_run();
            let pj = serde_json::to_string(&plan).expect("plan serialises");
            let pd = hash_str(&pj);
            if S::nontrivial(&plan) {
                nontrivial.insert(pd);
            }
            if o.samples.len() < 2 && first_in_unit && (unit == start || unit == end - 1) {
                o.samples.push(serde_json::from_str(&pj).unwrap());
            }
            first_in_unit = false;
            match S::execute(&plan, &mut obs) {
                Ok(()) => {}
                Err(Fail::Violation(v)) => {
                    let e = by_sig.entry(v.signature.clone()).or_insert_with(|| Found {
                        property: v.property.clone(),
                        range_start: start,
                        unit,
                        bare: is_bare,
                        signature: v.signature.clone(),
                        message: v.message.clone(),
                        plan: serde_json::from_str(&pj).unwrap(),
                        count: 0,
                    });
                    e.count += 1;
                }
                Err(Fail::Harness(h)) => {
                    if o.harness.len() < 20 {
                        o.harness.push(format!("unit {}: {}", unit, h.0));
                    }
                }
            }
            o.events += obs.seq;
            if want_digests {
                o.digests.push((unit, obs.digest.finish()));
            }
            true
        });
        o.units += 1;
    }
    o.nontrivial = nontrivial.into_iter().collect();
    o.nontrivial.sort_unstable();
    o.states = obs.states.iter().cloned().collect();
    o.states.sort_unstable();
    o.counters = obs.counters.clone();
    o.violations = by_sig.into_values().collect();
    o.wall_s = t0.elapsed().as_secs_f64();
    std::fs::write(out, serde_json::to_vec(&o).unwrap()).expect("write worker output");
    let _ = std::fs::remove_file(&progress_path);
    0
}

pub static HEARTBEAT: std::sync::atomic::AtomicU64 = std::sync::atomic::AtomicU64::new(0);
pub const HANG_EXIT: i32 = 86;
/// Set by the parent while it runs the interpreter-less pass: workers spawned meanwhile get
/// VERIF_BARE=1.
static SPAWN_BARE: std::sync::atomic::AtomicBool = std::sync::atomic::AtomicBool::new(false);
/// The units of the interpreter-less pass (a pure function of the unit number).
pub fn bare_unit(unit: u64) -> bool {
    unit % 8 == 3
}
/// Multiplier of the hang limit for the plan now running (set before each plan).
pub static BUDGET: std::sync::atomic::AtomicU64 = std::sync::atomic::AtomicU64::new(1);

fn hang_limit() -> Duration {
    Duration::from_secs(
        std::env::var("VERIF_HANG_SECS")
            .ok()
            .and_then(|s| s.parse().ok())
            .unwrap_or(20),
    )
}

/// CPU seconds (user + system) consumed by this process so far.
fn process_cpu_seconds() -> Option<f64> {
    let stat = std::fs::read_to_string("/proc/self/stat").ok()?;
    // fields after the closing parenthesis of the command name
    let rest = &stat[stat.rfind(')')? + 2..];
    let f: Vec<&str> = rest.split_whitespace().collect();
    let utime: f64 = f.get(11)?.parse().ok()?;
    let stime: f64 = f.get(12)?.parse().ok()?;
    Some((utime + stime) / 100.0)
}

/// A plan that burns more than the limit of CPU time without finishing is a hang: the
/// process exits with a distinguished code and the parent reports the plan (it cannot be
/// interrupted otherwise). CPU time, not wall-clock time, so that a starved machine is not
/// mistaken for a hang; a wall-clock backstop of 20x the limit covers a blocked process.
fn start_watchdog() {
    let limit = hang_limit();
    std::thread::spawn(move || {
        let mut last = HEARTBEAT.load(std::sync::atomic::Ordering::Relaxed);
        let mut since = Instant::now();
        let mut cpu_at = process_cpu_seconds();
        loop {
            std::thread::sleep(Duration::from_millis(250));
            let now = HEARTBEAT.load(std::sync::atomic::Ordering::Relaxed);
            if now != last {
                last = now;
                since = Instant::now();
                cpu_at = process_cpu_seconds();
                continue;
            }
            let burnt = match (cpu_at, process_cpu_seconds()) {
                (Some(a), Some(b)) => Some(b - a),
                _ => None,
            };
            let limit = limit * BUDGET.load(std::sync::atomic::Ordering::Relaxed).clamp(1, 1000) as u32;
            let hung = match burnt {
                Some(c) => c > limit.as_secs_f64() || since.elapsed() > limit * 20,
                None => since.elapsed() > limit * 3,
            };
            if hung {
                eprintln!(
                    "[watchdog] one plan has consumed {:?} CPU seconds ({:?} wall) without finishing",
                    burnt,
                    since.elapsed()
                );
                std::process::exit(HANG_EXIT);
            }
        }
    });
}

fn plan_at<S: Scenario>(tier: Tier, seed: u64, unit: u64, ordinal: u64) -> Option<S::Plan> {
    let mut k = 0u64;
    let mut found = None;
    S::unit(seed, tier, unit, &mut |p: S::Plan| {
        if k == ordinal {
            found = Some(p);
            k += 1;
            return false;
        }
        k += 1;
        found.is_none()
    });
    found
}

// ------------------------------------------------------------------------------- parent

struct Spawned {
    child: Child,
    out: PathBuf,
    start: u64,
    end: u64,
}

fn spawn_workers(
    id: &str,
    tier: Tier,
    seed: u64,
    total: u64,
    first: u64,
    workers: usize,
    dir: &Path,
    tag: &str,
    digests: bool,
) -> Vec<Spawned> {
    let exe = std::env::current_exe().expect("current_exe");
    let w = workers.max(1).min(total.max(1) as usize);
    let mut v = Vec::new();
    for i in 0..w {
        let start = first + total * i as u64 / w as u64;
        let end = first + total * (i as u64 + 1) / w as u64;
        let out = dir.join(format!("{}-{}-{}.json", id, tag, i));
        let mut cmd = Command::new(&exe);
        cmd.arg("worker")
            .arg(id)
            .arg(tier.name())
            .arg(seed.to_string())
            .arg(start.to_string())
            .arg(end.to_string())
            .arg(&out);
        if digests {
            cmd.arg("digests");
        }
        cmd.env(
            "VERIF_BARE",
            if SPAWN_BARE.load(std::sync::atomic::Ordering::Relaxed) { "1" } else { "0" },
        );
        cmd.stdin(Stdio::null());
        let child = cmd.spawn().expect("spawn worker");
        v.push(Spawned {
            child,
            out,
            start,
            end,
        });
    }
    v
}

enum WorkerResult {
    Done(WorkerOut),
    Died {
        at: Option<(u64, u64)>,
        hang: bool,
        status: String,
    },
    TimedOut,
}

fn collect(spawned: Vec<Spawned>, cap: Duration) -> Vec<(u64, u64, WorkerResult)> {
    let t0 = Instant::now();
    let mut res = Vec::new();
    for mut s in spawned {
        let r = loop {
            match s.child.try_wait() {
                Ok(Some(status)) => {
                    if status.success() && s.out.exists() {
                        match std::fs::read(&s.out)
                            .ok()
                            .and_then(|b| serde_json::from_slice::<WorkerOut>(&b).ok())
                        {
                            Some(o) => break WorkerResult::Done(o),
                            None => {
                                break WorkerResult::Died {
                                    at: None,
                                    hang: false,
                                    status: "unreadable worker output".into(),
                                }
                            }
                        }
                    } else {
                        let at = std::fs::read_to_string(s.out.with_extension("progress"))
                            .ok()
                            .and_then(|t| {
                                let mut it = t.split_whitespace();
                                let u = it.next()?.parse::<u64>().ok()?;
                                let k = it.next()?.parse::<u64>().ok()?;
                                Some((u, k))
                            });
                        break WorkerResult::Died {
                            at,
                            hang: status.code() == Some(HANG_EXIT),
                            status: format!("{}", status),
                        };
                    }
                }
                Ok(None) => {
                    if t0.elapsed() > cap {
                        let _ = s.child.kill();
                        let _ = s.child.wait();
                        break WorkerResult::TimedOut;
                    }
                    std::thread::sleep(Duration::from_millis(20));
                }
                Err(e) => {
                    break WorkerResult::Died {
                        at: None,
                        hang: false,
                        status: format!("wait failed: {}", e),
                    }
                }
            }
        };
        let _ = std::fs::remove_file(&s.out);
        let _ = std::fs::remove_file(s.out.with_extension("progress"));
        res.push((s.start, s.end, r));
    }
    res
}

#[derive(Deserialize, Default)]
struct KnownFile {
    #[serde(default)]
    known: Vec<KnownEntry>,
    #[serde(default)]
    fixed: Vec<Value>,
}
#[derive(Deserialize, Clone)]
struct KnownEntry {
    property: String,
    signature: String,
    what: String,
}

fn load_known() -> KnownFile {
    let p = verif_dir().join("known_findings.json");
    match std::fs::read(&p) {
        Ok(b) => serde_json::from_slice(&b).unwrap_or_else(|e| {
            eprintln!("harness error: cannot parse {}: {}", p.display(), e);
            std::process::exit(2);
        }),
        Err(_) => KnownFile::default(),
    }
}

/// The "no interior mutability, no clock, no I/O" assumption behind the N/A decisions and
/// behind sampling no thread schedules: re-checked on every run (DESIGN 1.2 / 3.9).
fn tripwire() -> Value {
    let pats: &[(&str, &[&str])] = &[
        ("locks", &["Mutex<", "RwLock<", "Condvar", "parking_lot"]),
        ("interior_mutability", &["RefCell<", "Cell<", "UnsafeCell", "OnceCell", "OnceLock", "LazyLock", "lazy_static", "static mut"]),
        ("atomics", &["AtomicU", "AtomicI", "AtomicBool", "AtomicPtr"]),
        ("threads", &["thread::spawn", "rayon", "allow_threads", "tokio", "async fn"]),
        ("clock", &["SystemTime::now", "Instant::now", "Utc::now", "Local::now"]),
        ("io", &["std::fs", "std::net", "File::", "TcpStream", "std::io::Read", "std::io::Write"]),
        ("shared_mutation", &["Arc::make_mut", "Arc::get_mut"]),
    ];
    let mut counts: BTreeMap<String, u64> = BTreeMap::new();
    let mut hits: Vec<String> = Vec::new();
    fn walk(dir: &Path, files: &mut Vec<PathBuf>) {
        if let Ok(rd) = std::fs::read_dir(dir) {
            let mut es: Vec<_> = rd.flatten().map(|e| e.path()).collect();
            es.sort();
            for p in es {
                if p.is_dir() {
                    walk(&p, files);
                } else if p.extension().map(|e| e == "rs").unwrap_or(false) {
                    files.push(p);
                }
            }
        }
    }
    let mut files = Vec::new();
    walk(Path::new("/repo/rust"), &mut files);
    for f in &files {
        let name = f.to_string_lossy().to_string();
        if name.ends_with("/main.rs") || name.ends_with("verif_hooks.rs") {
            continue;
        }
        let text = match std::fs::read_to_string(f) {
            Ok(t) => t,
            Err(_) => continue,
        };
        // library code only: cut at the unit-test module
        let lib = match text.find("#[cfg(test)]") {
            Some(i) => &text[..i],
            None => &text[..],
        };
        for (class, ps) in pats {
            for p in *ps {
                let c = lib
                    .lines()
                    .filter(|l| !l.trim_start().starts_with("//") && l.contains(p))
                    .count() as u64;
                if c > 0 {
                    *counts.entry(class.to_string()).or_insert(0) += c;
                    if hits.len() < 20 {
                        hits.push(format!("{}: {} x{}", name.replace("/repo/", ""), p, c));
                    }
                }
            }
        }
    }
    let holds = counts.values().all(|c| *c == 0);
    json!({
        "files_scanned": files.len(),
        "assumption": "library code under /repo/rust has no locks, interior mutability, atomics, threads, clock reads, file/socket I/O or mutation through Arc",
        "assumption_holds": holds,
        "matches": counts,
        "first_hits": hits,
    })
}

pub fn check(id: &str, tier: Tier) -> i32 {
    if !CLAIMED.contains(&id) {
        eprintln!("property '{}' is not claimed by this framework (see MANIFEST.not_applicable)", id);
        return 2;
    }
    if let Err(e) = crate::refad::self_check() {
        eprintln!("harness error: {}", e);
        return 2;
    }
    dispatch!(id, check_impl(id, tier))
}

fn check_impl<S: Scenario>(id: &str, tier: Tier) -> i32 {
    let t0 = Instant::now();
    let seed = seed();
    let total: u64 = std::env::var("VERIF_UNITS")
        .ok()
        .and_then(|s| s.parse().ok())
        .unwrap_or_else(|| S::units(tier));
    let workers = n_workers();
    let dir = scratch_dir();
    println!(
        "[{}] tier={} seed={} units={} workers={}",
        id,
        tier.name(),
        seed,
        total,
        workers
    );
    let cap = Duration::from_secs(match tier {
        Tier::Quick => 900,
        Tier::Thorough => 3 * 3600,
    });
    // regression plans of repaired defects are re-executed first, each in a fresh process
    let mut regression_hits: Vec<(PathBuf, String)> = Vec::new();
    let mut regressions_run = 0u64;
    if let Ok(rd) = std::fs::read_dir(verif_dir().join("regressions")) {
        let mut files: Vec<PathBuf> = rd
            .flatten()
            .map(|e| e.path())
            .filter(|p| {
                p.file_name()
                    .and_then(|n| n.to_str())
                    .map(|n| n.starts_with(&format!("{}-", id)) && n.ends_with(".json"))
                    .unwrap_or(false)
            })
            .collect();
        files.sort();
        let exe = std::env::current_exe().expect("current_exe");
        for f in files {
            regressions_run += 1;
            match Command::new(&exe).arg("replay").arg(&f).stdin(Stdio::null()).output() {
                Ok(out) => {
                    let text = String::from_utf8_lossy(&out.stdout).to_string();
                    match out.status.code() {
                        Some(0) => {}
                        Some(1) => {
                            let sig = text
                                .lines()
                                .find_map(|l| l.strip_prefix("signature="))
                                .unwrap_or("?")
                                .to_string();
                            regression_hits.push((f.clone(), sig));
                        }
                        _ => {
                            if out.status.code().is_none() {
                                regression_hits.push((f.clone(), "abort".into()));
                            } else if out.status.code() == Some(HANG_EXIT) {
                                regression_hits.push((f.clone(), "hang".into()));
                            } else {
                                eprintln!(
                                    "harness error: regression replay {} failed to run",
                                    f.display()
                                );
                                return 2;
                            }
                        }
                    }
                }
                Err(e) => {
                    eprintln!("harness error: cannot run regression replay: {}", e);
                    return 2;
                }
            }
        }
    }
    let mut evaluations = 0u64;
    let mut events = 0u64;
    let mut units_done = 0u64;
    let mut nontrivial: HashSet<u64> = HashSet::new();
    let mut states: HashSet<u64> = HashSet::new();
    let mut counters: BTreeMap<String, u64> = BTreeMap::new();
    let mut found: BTreeMap<String, Found> = BTreeMap::new();
    let mut harness: Vec<String> = Vec::new();
    let mut samples: Vec<Value> = Vec::new();
    let mut crashes = 0u64;
    let mut truncated = false;
    // ranges of units still to run; a worker that dies (abort, stack overflow, hang) names
    // the plan it was executing, that plan becomes a violation, and the rest is re-run
    let passes: u64 = if S::BARE_PASS { 2 } else { 1 };
    for pass in 0..passes {
    let bare_pass = pass == 1;
    SPAWN_BARE.store(bare_pass, std::sync::atomic::Ordering::Relaxed);
    if bare_pass && (!harness.is_empty() || truncated) {
        break;
    }
    let mut todo: Vec<(u64, u64)> = vec![(0, total)];
    let mut round = 0;
    while !todo.is_empty() && round < 40 {
        round += 1;
        let mut spawned = Vec::new();
        let per = (workers / todo.len()).max(1);
        for (ri, (a, b)) in todo.iter().enumerate() {
            spawned.extend(spawn_workers(
                id,
                tier,
                seed,
                b - a,
                *a,
                per,
                &dir,
                &format!("p{}r{}x{}", pass, round, ri),
                false,
            ));
        }
        todo.clear();
        for (start, end, r) in collect(spawned, cap) {
            match r {
                WorkerResult::Done(o) => {
                    evaluations += o.evaluations;
                    events += o.events;
                    units_done += o.units;
                    nontrivial.extend(o.nontrivial);
                    states.extend(o.states);
                    for (k, v) in o.counters {
                        *counters.entry(k).or_insert(0) += v;
                    }
                    for f in o.violations {
                        match found.get_mut(&f.signature) {
                            Some(e) => {
                                e.count += f.count;
                                if f.unit < e.unit {
                                    let c = e.count;
                                    *e = f;
                                    e.count = c;
                                }
                            }
                            None => {
                                found.insert(f.signature.clone(), f);
                            }
                        }
                    }
                    harness.extend(o.harness);
                    if samples.len() < 3 {
                        samples.extend(o.samples.into_iter().take(1));
                    }
                }
                WorkerResult::Died {
                    at: Some((u, k)),
                    status,
                    ..
                } if status.contains("exit status: 101") => {
                    // an unwind that escaped every guard: a panic in the harness itself,
                    // not in the code under test (those are caught around each call)
                    harness.push(format!(
                        "worker panicked outside the code under test at unit {} plan {} ({}); see stderr",
                        u, k, status
                    ));
                }
                WorkerResult::Died {
                    at: Some((u, k)),
                    hang,
                    status,
                } if u >= start && u < end => {
                    crashes += 1;
                    match plan_at::<S>(tier, seed, u, k) {
                        Some(plan) => {
                            let class = if hang { "hang" } else { "abort" };
                            let sig = format!("{}|{}|{}", id, class, S::label(&plan));
                            let msg = if hang {
                                format!(
                                    "the operation did not return within {:?} (unit {}, plan {})",
                                    hang_limit(),
                                    u,
                                    k
                                )
                            } else {
                                format!(
                                    "the process died ({}) while executing this plan (unit {}, plan {})",
                                    status, u, k
                                )
                            };
                            let e = found.entry(sig.clone()).or_insert_with(|| Found {
                                property: id.to_string(),
                                range_start: u,
                                unit: u,
                                bare: bare_pass,
                                signature: sig,
                                message: msg,
                                plan: serde_json::to_value(&plan).unwrap(),
                                count: 0,
                            });
                            e.count += 1;
                            units_done += 1;
                        }
                        None => harness.push(format!(
                            "worker died at unit {} plan {} which cannot be regenerated",
                            u, k
                        )),
                    }
                    let same = found
                        .values()
                        .filter(|f| f.signature.contains("|abort|") || f.signature.contains("|hang|"))
                        .map(|f| f.count)
                        .max()
                        .unwrap_or(0);
                    if same >= 3 || crashes >= 12 {
                        // the same crash keeps recurring: report it, do not grind through
                        // every remaining unit that would die the same way
                        truncated = true;
                    } else {
                        if u > start {
                            todo.push((start, u));
                        }
                        if u + 1 < end {
                            todo.push((u + 1, end));
                        }
                    }
                }
                WorkerResult::Died { at, status, .. } => {
                    harness.push(format!(
                        "worker for units {}..{} died ({}) at {:?}",
                        start, end, status, at
                    ));
                }
                WorkerResult::TimedOut => {
                    harness.push(format!(
                        "worker for units {}..{} exceeded the wall-clock cap",
                        start, end
                    ));
                }
            }
        }
        if !harness.is_empty() || truncated {
            break;
        }
    }
    }
    SPAWN_BARE.store(false, std::sync::atomic::Ordering::Relaxed);
    let total = total * passes;
    let _ = std::fs::remove_dir_all(&dir);

    // ---- classify violations
    let known = load_known();
    let mut known_lines: Vec<String> = Vec::new();
    let mut unknown: Vec<Found> = Vec::new();
    for f in found.values() {
        match known
            .known
            .iter()
            .find(|k| k.property == f.property && k.signature == f.signature)
        {
            Some(k) => known_lines.push(format!(
                "KNOWN-FINDING: property={} {} [signature {} seen {}x]",
                k.property, k.what, k.signature, f.count
            )),
            None => unknown.push(f.clone()),
        }
    }
    unknown.sort_by_key(|f| f.unit);
    if std::env::var("VERIF_LIST_ALL").is_ok() {
        for f in &unknown {
            println!("  [{}x, first at unit {}] {} :: {}", f.count, f.unit, f.signature, f.message);
        }
    }

    let wall = t0.elapsed().as_secs_f64();
    let mut faults: BTreeMap<String, u64> = BTreeMap::new();
    let mut reach: BTreeMap<String, u64> = BTreeMap::new();
    let mut ops: BTreeMap<String, u64> = BTreeMap::new();
    for (k, v) in &counters {
        if let Some(r) = k.strip_prefix("fault.") {
            faults.insert(r.to_string(), *v);
        } else if let Some(r) = k.strip_prefix("reach.") {
            reach.insert(r.to_string(), *v);
        } else {
            ops.insert(k.clone(), *v);
        }
    }
    if samples.is_empty() {
        samples.push(json!("no sample captured"));
    }
    let mut coverage = json!({
        "evaluations": evaluations,
        "distinct_nontrivial": nontrivial.len(),
        "rule": S::rule(),
        "samples": samples,
        "exhaustive": S::exhaustive(tier),
        "units": units_done,
        "events_executed": events,
        "distinct_abstract_states": states.len(),
        "faults_fired": faults,
        "reach_probes": reach,
        "operation_counts": ops,
        "runs_per_hour": if wall > 0.0 { (evaluations as f64 / wall * 3600.0) as u64 } else { 0 },
        "simulated_time": "none: the code under test reads no clock and has no timers; progress is measured in logical events",
        "components": S::components(),
        "workers": workers,
        "tripwire": tripwire(),
        "known_findings_hit": known_lines.len(),
        "distinct_violation_signatures": unknown.len(),
        "regression_plans_replayed": regressions_run,
        "worker_process_crashes_or_hangs": crashes,
        "cut_short_after_repeated_crashes": truncated,
        "regression_plans_failing": regression_hits.len(),
    });
    let extra = S::extra_coverage(tier);
    if let (Some(c), Some(e)) = (coverage.as_object_mut(), extra.as_object()) {
        for (k, v) in e {
            c.insert(k.clone(), v.clone());
        }
    }
    let evidence = json!({
        "property_id": id,
        "tier": tier.name(),
        "seed": seed,
        "level": S::LEVEL,
        "coverage": coverage,
        "assumptions": S::assumptions(),
        "wall_s": wall,
        "violations": unknown.len() + regression_hits.len(),
    });
    let evdir = verif_dir().join("evidence");
    let _ = std::fs::create_dir_all(&evdir);
    if let Err(e) = std::fs::write(
        evdir.join(format!("{}.json", id)),
        serde_json::to_vec_pretty(&evidence).unwrap(),
    ) {
        eprintln!("harness error: cannot write evidence: {}", e);
        return 2;
    }

    for l in &known_lines {
        println!("{}", l);
    }
    println!(
        "[{}] evaluations={} distinct_nontrivial={} events={} states={} wall={:.1}s",
        id,
        evaluations,
        nontrivial.len(),
        events,
        states.len(),
        wall
    );
    if !harness.is_empty() {
        for h in harness.iter().take(10) {
            eprintln!("harness error: {}", h);
        }
        return 2;
    }
    if truncated {
        println!(
            "[{}] exploration cut short after repeated worker crashes/hangs ({} of {} units executed)",
            id, units_done, total
        );
    } else if units_done != total {
        eprintln!("harness error: {} of {} units executed", units_done, total);
        return 2;
    }
    for (f, sig) in &regression_hits {
        println!("  regression of a repaired defect returned: {}", sig);
        println!("VIOLATION property={} replay={}", id, f.display());
    }
    if unknown.is_empty() {
        if regression_hits.is_empty() {
            println!("[{}] property held on everything explored", id);
            return 0;
        }
        return 1;
    }

    // ---- minimise, write replay files, verify replay in a fresh process, report
    let mut reported = 0;
    let mut code = 1;
    for f in unknown.iter().take(4) {
        match report_violation(id, seed, tier.name(), f) {
            Ok(path) => {
                println!("  {}: {}", f.signature, f.message);
                println!("VIOLATION property={} replay={}", id, path.display());
                reported += 1;
            }
            Err(e) => {
                eprintln!("harness error: {}", e);
                code = 2;
            }
        }
    }
    if unknown.len() > reported {
        println!(
            "[{}] {} further distinct violation signature(s) not minimised",
            id,
            unknown.len() - reported
        );
    }
    if reported == 0 {
        return 2;
    }
    code
}

#[derive(Serialize, Deserialize)]
struct ReplayFile {
    property: String,
    seed: u64,
    unit: u64,
    signature: String,
    message: String,
    minimised: bool,
    plan: Value,
    how_to_replay: String,
    /// history replay: the violation needs these earlier units executed in the SAME process
    /// (state shared across objects); `plan` is then the plan on which it shows
    #[serde(default)]
    units: Option<Vec<u64>>,
    #[serde(default)]
    tier: Option<String>,
    /// the violation shows in a process without a Python interpreter (replay honours it)
    #[serde(default)]
    bare: bool,
}

fn report_violation(id: &str, seed: u64, tier_name: &str, f: &Found) -> Result<PathBuf, String> {
    let dir = scratch_dir();
    let rdir = verif_dir().join("replays");
    std::fs::create_dir_all(&rdir).map_err(|e| e.to_string())?;
    let exe = std::env::current_exe().map_err(|e| e.to_string())?;
    let plan_in = dir.join("plan-in.json");
    let plan_out = dir.join("plan-out.json");
    std::fs::write(&plan_in, serde_json::to_vec(&f.plan).unwrap()).map_err(|e| e.to_string())?;
    let _ = std::fs::remove_file(&plan_out);
    let fatal = f.signature.contains("|abort|") || f.signature.contains("|hang|");
    let status = if fatal {
        // the plan kills or wedges the process that runs it: it is reported as found
        Err(std::io::Error::new(std::io::ErrorKind::Other, "not minimised"))
    } else {
        Command::new(&exe)
            .env("VERIF_BARE", if f.bare { "1" } else { "0" })
            .arg("minimise")
            .arg(id)
            .arg(&plan_in)
            .arg(&f.signature)
            .arg(&plan_out)
            .stdin(Stdio::null())
            .status()
    };
    let (plan, message, minimised) = match status {
        Ok(s) if s.success() && plan_out.exists() => {
            let v: Value = serde_json::from_slice(&std::fs::read(&plan_out).unwrap())
                .map_err(|e| e.to_string())?;
            (
                v["plan"].clone(),
                v["message"].as_str().unwrap_or(&f.message).to_string(),
                true,
            )
        }
        _ => (f.plan.clone(), f.message.clone(), false),
    };
    let _ = std::fs::remove_dir_all(&dir);
    let path = rdir.join(format!(
        "{}-{}-{:08x}.json",
        id,
        seed,
        hash_str(&f.signature) as u32
    ));
    let rf = ReplayFile {
        property: id.to_string(),
        seed,
        unit: f.unit,
        signature: f.signature.clone(),
        message,
        minimised,
        plan,
        how_to_replay: format!("cd /verif && ./check replay {}", path.display()),
        units: None,
        tier: None,
        bare: f.bare,
    };
    std::fs::write(&path, serde_json::to_vec_pretty(&rf).unwrap()).map_err(|e| e.to_string())?;
    // replay in a fresh process must reproduce the same signature
    let out = Command::new(&exe)
        .arg("replay")
        .arg(&path)
        .stdin(Stdio::null())
        .output()
        .map_err(|e| e.to_string())?;
    let text = String::from_utf8_lossy(&out.stdout);
    let abort_sig = f.signature.contains("|abort|");
    let hang_sig = f.signature.contains("|hang|");
    let reproduced = text.contains(&format!("signature={}", f.signature))
        || (abort_sig && out.status.code().is_none())
        || (hang_sig && out.status.code() == Some(HANG_EXIT));
    if reproduced {
        return Ok(path);
    }
    // The single plan does not reproduce alone: the violation may need state left behind by
    // plans executed earlier in the same worker process. Replay the worker's history.
    let tier = tier_name.to_string();
    let try_units = |units: &[u64]| -> Result<bool, String> {
        let rf = ReplayFile {
            property: id.to_string(),
            seed,
            unit: f.unit,
            signature: f.signature.clone(),
            message: format!(
                "{} [shows only after the listed earlier units have run in the same process]",
                f.message
            ),
            minimised: false,
            plan: f.plan.clone(),
            how_to_replay: format!("cd /verif && ./check replay {}", path.display()),
            units: Some(units.to_vec()),
            tier: Some(tier.clone()),
            bare: f.bare,
        };
        std::fs::write(&path, serde_json::to_vec_pretty(&rf).unwrap())
            .map_err(|e| e.to_string())?;
        let out = Command::new(&exe)
            .arg("replay")
            .arg(&path)
            .stdin(Stdio::null())
            .output()
            .map_err(|e| e.to_string())?;
        Ok(String::from_utf8_lossy(&out.stdout).contains(&format!("signature={}", f.signature)))
    };
    let full: Vec<u64> = (f.range_start..=f.unit).collect();
    if !try_units(&full)? {
        let _ = std::fs::remove_file(&path);
        return Err(format!(
            "signature {} reproduced neither from its plan alone nor from the worker's history (units {}..={})",
            f.signature, f.range_start, f.unit
        ));
    }
    // shrink the history: shortest reproducing suffix, then drop single earlier units
    let mut best = full.clone();
    let mut k = 2usize;
    while k < full.len() {
        let cand = full[full.len() - k..].to_vec();
        if try_units(&cand)? {
            best = cand;
            break;
        }
        k *= 2;
    }
    let mut i = 0;
    let mut attempts = 0;
    while i + 1 < best.len() && attempts < 48 {
        let mut cand = best.clone();
        cand.remove(i);
        attempts += 1;
        if try_units(&cand)? {
            best = cand;
        } else {
            i += 1;
        }
    }
    if !try_units(&best)? {
        return Err("history replay became unstable while shrinking".into());
    }
    Ok(path)
}

// ------------------------------------------------------------------------------- minimise

pub fn minimise_main(args: &[String]) -> i32 {
    // minimise <ID> <plan-in> <signature> <plan-out>
    if args.len() < 4 {
        return 2;
    }
    init_python();
    dispatch!(
        args[0].as_str(),
        minimise(Path::new(&args[1]), &args[2], Path::new(&args[3]))
    )
}

fn minimise<S: Scenario>(plan_in: &Path, signature: &str, plan_out: &Path) -> i32 {
    let mut plan: S::Plan = match std::fs::read(plan_in)
        .ok()
        .and_then(|b| serde_json::from_slice(&b).ok())
    {
        Some(p) => p,
        None => return 2,
    };
    let t0 = Instant::now();
    let mut budget = 2000u32;
    let mut obs = Obs::new(false);
    // confirm
    let mut message = match S::execute(&plan, &mut obs) {
        Err(Fail::Violation(v)) if v.signature == signature => v.message,
        _ => return 2,
    };
    'outer: loop {
        let cands = S::shrink(&plan);
        for c in cands {
            if budget == 0 || t0.elapsed() > Duration::from_secs(120) {
                break 'outer;
            }
            budget -= 1;
            let mut obs = Obs::new(false);
            if let Err(Fail::Violation(v)) = S::execute(&c, &mut obs) {
                if v.signature == signature {
                    plan = c;
                    message = v.message;
                    continue 'outer;
                }
            }
        }
        break;
    }
    let out = json!({"plan": serde_json::to_value(&plan).unwrap(), "message": message});
    if std::fs::write(plan_out, serde_json::to_vec(&out).unwrap()).is_err() {
        return 2;
    }
    0
}

// ------------------------------------------------------------------------------- replay

pub fn replay_main(file: &str) -> i32 {
    let rf: ReplayFile = match std::fs::read(file)
        .ok()
        .and_then(|b| serde_json::from_slice(&b).ok())
    {
        Some(r) => r,
        None => {
            eprintln!("harness error: cannot read replay file {}", file);
            return 2;
        }
    };
    // a replay runs with or without the interpreter as the recorded execution did
    std::env::set_var("VERIF_BARE", if rf.bare { "1" } else { "0" });
    init_python();
    let id = rf.property.clone();
    dispatch!(id.as_str(), replay(&rf, file))
}

fn replay_history<S: Scenario>(rf: &ReplayFile, file: &str, units: &[u64]) -> i32 {
    let tier = rf
        .tier
        .as_deref()
        .and_then(Tier::parse)
        .unwrap_or(Tier::Quick);
    start_watchdog();
    let mut obs = Obs::new(false);
    let mut hit: Option<Violation> = None;
    let mut n = 0u64;
    for u in units {
        S::unit(rf.seed, tier, *u, &mut |plan: S::Plan| {
            BUDGET.store(S::budget(&plan), std::sync::atomic::Ordering::Relaxed);
            HEARTBEAT.fetch_add(1, std::sync::atomic::Ordering::Relaxed);
            obs.reset_run();
            n += 1;
            if let Err(Fail::Violation(v)) = S::execute(&plan, &mut obs) {
                if v.signature == rf.signature && hit.is_none() {
                    hit = Some(v);
                    return false;
                }
            }
            true
        });
        if hit.is_some() {
            break;
        }
    }
    println!("history replay: {} unit(s), {} plan(s) executed in one process", units.len(), n);
    match hit {
        Some(v) => {
            println!("signature={}", v.signature);
            println!("message={}", v.message);
            println!("reproduced=yes");
            println!("VIOLATION property={} replay={}", rf.property, file);
            1
        }
        None => {
            println!("replay: no violation (recorded signature was {})", rf.signature);
            0
        }
    }
}

fn replay<S: Scenario>(rf: &ReplayFile, file: &str) -> i32 {
    if let Some(units) = &rf.units {
        return replay_history::<S>(rf, file, units);
    }
    let plan: S::Plan = match serde_json::from_value(rf.plan.clone()) {
        Ok(p) => p,
        Err(e) => {
            eprintln!("harness error: replay plan does not parse: {}", e);
            return 2;
        }
    };
    let mut obs = Obs::new(true);
    start_watchdog();
    BUDGET.store(S::budget(&plan), std::sync::atomic::Ordering::Relaxed);
    HEARTBEAT.fetch_add(1, std::sync::atomic::Ordering::Relaxed);
    let r = S::execute(&plan, &mut obs);
    if std::env::var("VERIF_TRACE").is_ok() {
        if let Some(t) = &obs.trace {
            for l in t {
                println!("{}", l);
            }
        }
    }
    println!("events={} run_digest={:016x}", obs.seq, obs.digest.finish());
    match r {
        Ok(()) => {
            println!("replay: no violation (recorded signature was {})", rf.signature);
            0
        }
        Err(Fail::Violation(v)) => {
            println!("signature={}", v.signature);
            println!("message={}", v.message);
            println!(
                "reproduced={}",
                if v.signature == rf.signature {
                    "yes"
                } else {
                    "different-signature"
                }
            );
            println!("VIOLATION property={} replay={}", rf.property, file);
            1
        }
        Err(Fail::Harness(h)) => {
            eprintln!("harness error: {}", h.0);
            2
        }
    }
}

// ------------------------------------------------------------------------------- gen

pub fn gen_main(args: &[String]) -> i32 {
    if args.len() < 3 {
        return 2;
    }
    let tier = Tier::parse(&args[1]).unwrap_or(Tier::Quick);
    let unit: u64 = args[2].parse().unwrap_or(0);
    init_python();
    dispatch!(args[0].as_str(), gen(tier, unit))
}

fn gen<S: Scenario>(tier: Tier, unit: u64) -> i32 {
    let mut n = 0;
    S::unit(seed(), tier, unit, &mut |p: S::Plan| {
        if n < 5 {
            println!("{}", serde_json::to_string_pretty(&p).unwrap());
        }
        n += 1;
        true
    });
    eprintln!("{} plan(s) in unit {}", n, unit);
    0
}

// ------------------------------------------------------------------------------- selftest

pub fn selftest(args: &[String]) -> i32 {
    if args.first().map(|s| s.as_str()) != Some("determinism") {
        eprintln!("usage: rlsim selftest determinism [ID...]");
        return 2;
    }
    let ids: Vec<String> = if args.len() > 1 {
        args[1..].to_vec()
    } else {
        CLAIMED.iter().map(|s| s.to_string()).collect()
    };
    let n: u64 = std::env::var("VERIF_DET_UNITS")
        .ok()
        .and_then(|s| s.parse().ok())
        .unwrap_or(256);
    let base_seed = seed();
    let nseeds: u64 = std::env::var("VERIF_DET_SEEDS")
        .ok()
        .and_then(|s| s.parse().ok())
        .unwrap_or(3);
    let mut total_pairs = 0u64;
    let mut report = Vec::new();
    for id in &ids {
        for (tier, seed) in (0..nseeds)
            .flat_map(|k| [(Tier::Quick, base_seed + k), (Tier::Thorough, base_seed + k)])
        {
            let dir = scratch_dir();
            let mut runs: Vec<BTreeMap<u64, Vec<u64>>> = Vec::new();
            for (tag, w) in [("a1", 1usize), ("b16", 16usize), ("c3", 3usize)] {
                let sp = spawn_workers(id, tier, seed, n, 0, w, &dir, tag, true);
                let rs = collect(sp, Duration::from_secs(1800));
                let mut m: BTreeMap<u64, Vec<u64>> = BTreeMap::new();
                for (_, _, r) in rs {
                    match r {
                        WorkerResult::Done(o) => {
                            for (u, d) in o.digests {
                                m.entry(u).or_default().push(d);
                            }
                        }
                        _ => {
                            eprintln!("harness error: determinism worker failed for {}", id);
                            return 2;
                        }
                    }
                }
                runs.push(m);
            }
            let _ = std::fs::remove_dir_all(&dir);
            let units: BTreeSet<u64> = runs[0].keys().cloned().collect();
            for m in &runs[1..] {
                let u2: BTreeSet<u64> = m.keys().cloned().collect();
                if u2 != units {
                    eprintln!("harness error: determinism: unit sets differ for {}", id);
                    return 2;
                }
            }
            for u in &units {
                for m in &runs[1..] {
                    if m[u] != runs[0][u] {
                        eprintln!(
                            "harness error: NONDETERMINISM in {} {} unit {}: {:x?} vs {:x?}",
                            id,
                            tier.name(),
                            u,
                            runs[0][u],
                            m[u]
                        );
                        return 2;
                    }
                    total_pairs += 1;
                }
            }
            report.push(json!({"property": id, "tier": tier.name(), "seed": seed, "units": units.len(), "process_configurations": ["1 worker", "16 workers", "3 workers"]}));
            println!(
                "[determinism] {} {} seed {}: {} units identical across 3 process configurations",
                id,
                tier.name(),
                seed,
                units.len()
            );
        }
    }
    let out = json!({"seeds": (0..nseeds).map(|k| base_seed + k).collect::<Vec<u64>>(), "pairs_compared": total_pairs, "detail": report});
    let _ = std::fs::create_dir_all(verif_dir().join("evidence"));
    let _ = std::fs::write(
        verif_dir().join("evidence").join("determinism.json"),
        serde_json::to_vec_pretty(&out).unwrap(),
    );
    println!("[determinism] {} digest pairs compared, all identical", total_pairs);
    0
}
