//! A small order-preserving JSON tree (duplicate members allowed, numbers and strings kept
//! as raw text) and the storage-fault operators that act on it (DESIGN 3.4).

#[derive(Clone, Debug, PartialEq)]
pub enum J {
    Null,
    Bool(bool),
    /// raw number text
    Num(String),
    /// raw string text including the quotes
    Str(String),
    Arr(Vec<J>),
    Obj(Vec<(String, J)>),
}

struct Parser<'a> {
    b: &'a [u8],
    i: usize,
}

impl<'a> Parser<'a> {
    fn ws(&mut self) {
        while self.i < self.b.len() && (self.b[self.i] as char).is_ascii_whitespace() {
            self.i += 1;
        }
    }
    fn raw_string(&mut self) -> Result<String, String> {
        let start = self.i;
        if self.b.get(self.i) != Some(&b'"') {
            return Err("expected string".into());
        }
        self.i += 1;
        while self.i < self.b.len() {
            match self.b[self.i] {
                b'\\' => self.i += 2,
                b'"' => {
                    self.i += 1;
                    return Ok(String::from_utf8_lossy(&self.b[start..self.i]).to_string());
                }
                _ => self.i += 1,
            }
        }
        Err("unterminated string".into())
    }
    fn value(&mut self) -> Result<J, String> {
        self.ws();
        match self.b.get(self.i) {
            None => Err("eof".into()),
            Some(b'{') => {
                self.i += 1;
                let mut m = Vec::new();
                self.ws();
                if self.b.get(self.i) == Some(&b'}') {
                    self.i += 1;
                    return Ok(J::Obj(m));
                }
                loop {
                    self.ws();
                    let k = self.raw_string()?;
                    self.ws();
                    if self.b.get(self.i) != Some(&b':') {
                        return Err("expected :".into());
                    }
                    self.i += 1;
                    let v = self.value()?;
                    m.push((k, v));
                    self.ws();
                    match self.b.get(self.i) {
                        Some(b',') => self.i += 1,
                        Some(b'}') => {
                            self.i += 1;
                            return Ok(J::Obj(m));
                        }
                        _ => return Err("expected , or }".into()),
                    }
                }
            }
            Some(b'[') => {
                self.i += 1;
                let mut a = Vec::new();
                self.ws();
                if self.b.get(self.i) == Some(&b']') {
                    self.i += 1;
                    return Ok(J::Arr(a));
                }
                loop {
                    a.push(self.value()?);
                    self.ws();
                    match self.b.get(self.i) {
                        Some(b',') => self.i += 1,
                        Some(b']') => {
                            self.i += 1;
                            return Ok(J::Arr(a));
                        }
                        _ => return Err("expected , or ]".into()),
                    }
                }
            }
            Some(b'"') => Ok(J::Str(self.raw_string()?)),
            Some(b't') if self.b[self.i..].starts_with(b"true") => {
                self.i += 4;
                Ok(J::Bool(true))
            }
            Some(b'f') if self.b[self.i..].starts_with(b"false") => {
                self.i += 5;
                Ok(J::Bool(false))
            }
            Some(b'n') if self.b[self.i..].starts_with(b"null") => {
                self.i += 4;
                Ok(J::Null)
            }
            Some(_) => {
                let start = self.i;
                while self.i < self.b.len()
                    && matches!(self.b[self.i], b'0'..=b'9' | b'-' | b'+' | b'.' | b'e' | b'E')
                {
                    self.i += 1;
                }
                if start == self.i {
                    return Err("unexpected byte".into());
                }
                Ok(J::Num(
                    String::from_utf8_lossy(&self.b[start..self.i]).to_string(),
                ))
            }
        }
    }
}

pub fn parse(text: &str) -> Result<J, String> {
    let mut p = Parser {
        b: text.as_bytes(),
        i: 0,
    };
    let v = p.value()?;
    p.ws();
    if p.i != p.b.len() {
        return Err("trailing characters".into());
    }
    Ok(v)
}

pub fn render(j: &J) -> String {
    let mut s = String::new();
    render_into(j, &mut s);
    s
}

fn render_into(j: &J, s: &mut String) {
    match j {
        J::Null => s.push_str("null"),
        J::Bool(b) => s.push_str(if *b { "true" } else { "false" }),
        J::Num(n) => s.push_str(n),
        J::Str(t) => s.push_str(t),
        J::Arr(a) => {
            s.push('[');
            for (i, x) in a.iter().enumerate() {
                if i > 0 {
                    s.push(',');
                }
                render_into(x, s);
            }
            s.push(']');
        }
        J::Obj(m) => {
            s.push('{');
            for (i, (k, v)) in m.iter().enumerate() {
                if i > 0 {
                    s.push(',');
                }
                s.push_str(k);
                s.push(':');
                render_into(v, s);
            }
            s.push('}');
        }
    }
}

/// Sort every `week_mask` array (the one per-process nondeterminism in saved text).
pub fn canonicalise(j: &mut J) {
    match j {
        J::Arr(a) => a.iter_mut().for_each(canonicalise),
        J::Obj(m) => {
            for (k, v) in m.iter_mut() {
                if k == "\"week_mask\"" {
                    if let J::Arr(a) = v {
                        a.sort_by_key(render);
                    }
                }
                canonicalise(v);
            }
        }
        _ => {}
    }
}

pub type Path = Vec<usize>;

/// All node paths in document order (root = empty path).
pub fn paths(j: &J) -> Vec<Path> {
    fn go(j: &J, cur: &mut Path, out: &mut Vec<Path>) {
        out.push(cur.clone());
        match j {
            J::Arr(a) => {
                for (i, x) in a.iter().enumerate() {
                    cur.push(i);
                    go(x, cur, out);
                    cur.pop();
                }
            }
            J::Obj(m) => {
                for (i, (_, v)) in m.iter().enumerate() {
                    cur.push(i);
                    go(v, cur, out);
                    cur.pop();
                }
            }
            _ => {}
        }
    }
    let mut out = Vec::new();
    go(j, &mut Vec::new(), &mut out);
    out
}

pub fn get<'a>(j: &'a J, p: &[usize]) -> Option<&'a J> {
    let mut cur = j;
    for i in p {
        cur = match cur {
            J::Arr(a) => a.get(*i)?,
            J::Obj(m) => &m.get(*i)?.1,
            _ => return None,
        };
    }
    Some(cur)
}

pub fn get_mut<'a>(j: &'a mut J, p: &[usize]) -> Option<&'a mut J> {
    let mut cur = j;
    for i in p {
        cur = match cur {
            J::Arr(a) => a.get_mut(*i)?,
            J::Obj(m) => &mut m.get_mut(*i)?.1,
            _ => return None,
        };
    }
    Some(cur)
}

/// Human-readable path like `FXRates.fx_rates[1].rate.F64`
pub fn describe(j: &J, p: &[usize]) -> String {
    let mut cur = j;
    let mut s = String::from("$");
    for i in p {
        match cur {
            J::Arr(a) => {
                s.push_str(&format!("[{}]", i));
                cur = &a[*i];
            }
            J::Obj(m) => {
                s.push('.');
                s.push_str(m[*i].0.trim_matches('"'));
                cur = &m[*i].1;
            }
            _ => break,
        }
    }
    s
}

pub const NUM_ALTS: &[&str] = &[
    "0",
    "-1",
    "1",
    "2",
    "0.5",
    "-0.0",
    "18446744073709551616",
    "1e308",
    "5e-324",
    "1e999",
    "-9223372036854775808",
    "9223372036854775807",
    "18446744073709551615",
    "18446744073709551614",
    "4294967295",
    "4294967296",
    "null",
    "\"\"",
    "true",
    "[]",
    "{}",
];

pub const STR_ALTS: &[&str] = &[
    "\"\"",
    "\"zzz\"",
    "\"ALL\"",
    "\"bus\"",
    "\"tgt,ldn|fed\"",
    "\"a|b|c\"",
    "\",\"",
    "\"usd\"",
    "\"us\"",
    "\"Mon\"",
    "\"2000-01-01T00:00:00\"",
    "\"\\u00e9\\u00e9\\u00e9\"",
    "\"İ|tgt\"",
    "\"st\u{212A}|tgt\"",
    "\"\u{212A}|\"",
    "\"tgt,ldn|東京証券取引所の休日カレンダーの名前\"",
    "\"€a€€b€€€c€€€€d€€€€€e€€€€€€f\"",
    "\"aaaaaaaaaaaaaaaaaaaaaaaaaaaaaaaaaaaaaaaaaaaaaaaaaaaaaaaaaaaaaaaaaaaaaaaaaaaaaaaa\"",
    "null",
    "0",
    "[]",
];

pub const TAG_FAMILIES: &[&[&str]] = &[
    &["F64", "Dual", "Dual2"],
    &[
        "LogLinear",
        "Linear",
        "LinearZeroRate",
        "FlatForward",
        "FlatBackward",
        "Null",
    ],
    &["Cal", "UnionCal", "NamedCal"],
    &[
        "Dual",
        "Dual2",
        "Cal",
        "UnionCal",
        "NamedCal",
        "FXRates",
        "Curve",
        "PPSplineF64",
        "PPSplineDual",
        "PPSplineDual2",
    ],
    &["Act360", "Act365F", "Bus252", "NotAConvention"],
    &["ModF", "F", "P", "ModP", "Act", "NotAModifier"],
];

/// One structured fault applied to a tree: (kind, description, faulty text).
pub struct Faulted {
    pub kind: &'static str,
    pub what: String,
    pub text: String,
}

/// Enumerate COMPLETELY: every member deletion, every member duplication, every scalar x
/// every alternative, every array grow/shrink, every enum-tag swap.
pub fn structured_faults(doc: &J, sink: &mut dyn FnMut(Faulted)) {
    structured_faults_on(doc, 1, 0, sink)
}

/// As `structured_faults`, on every `stride`-th field only (fields `phase`, `phase + stride`,
/// ... in document order; each chosen field still gets its complete set of faults). For
/// documents so large that the complete enumeration - quadratic in the document size - is
/// out of reach.
pub fn structured_faults_on(doc: &J, stride: usize, phase: usize, sink: &mut dyn FnMut(Faulted)) {
    let all = paths(doc);
    // values that occur elsewhere in the same document: altering a field to a value another
    // field already holds creates coincidences (a duplicated pair, k == n, ...)
    let mut other_strs: Vec<String> = Vec::new();
    let mut other_nums: Vec<String> = Vec::new();
    for p in &all {
        match get(doc, p) {
            Some(J::Str(s)) if !other_strs.contains(s) && other_strs.len() < 6 => {
                other_strs.push(s.clone())
            }
            Some(J::Num(n)) if !other_nums.contains(n) && other_nums.len() < 6 => {
                other_nums.push(n.clone())
            }
            _ => {}
        }
    }
    let derived: Vec<i64> = {
        let mut base: Vec<i64> = Vec::new();
        for p in &all {
            let x = match get(doc, p) {
                Some(J::Num(n)) => n.parse::<i64>().ok().filter(|x| x.abs() <= 1_000_000),
                Some(J::Arr(a)) => Some(a.len() as i64),
                _ => None,
            };
            if let Some(x) = x {
                if !base.contains(&x) && base.len() < 12 {
                    base.push(x);
                }
            }
        }
        let mut out: Vec<i64> = Vec::new();
        for a in &base {
            for b in &base {
                for x in [a + b, (a - b).abs()] {
                    if !out.contains(&x) && out.len() < 40 {
                        out.push(x);
                    }
                }
            }
        }
        out
    };
    for (pi, p) in all.iter().enumerate() {
        // (the shallow fields - the document's own structure - are always taken)
        if stride > 1 && p.len() > 2 && pi % stride != phase % stride {
            continue;
        }
        let node = get(doc, p).unwrap();
        let here = describe(doc, p);
        match node {
            J::Obj(m) => {
                // members in another order (maps that are kept in document order notice)
                if m.len() >= 2 {
                    let mut d = doc.clone();
                    if let Some(J::Obj(mm)) = get_mut(&mut d, p) {
                        mm.reverse();
                    }
                    sink(Faulted {
                        kind: "VALUE_ALTER",
                        what: format!("members of {} in reverse order", here),
                        text: render(&d),
                    });
                    for i in 0..(m.len() - 1).min(6) {
                        let mut d = doc.clone();
                        if let Some(J::Obj(mm)) = get_mut(&mut d, p) {
                            mm.swap(i, i + 1);
                        }
                        sink(Faulted {
                            kind: "VALUE_ALTER",
                            what: format!("members {} and {} of {} swapped", m[i].0, m[i + 1].0, here),
                            text: render(&d),
                        });
                    }
                }
                // member NAMES that are numbers (maps keyed by timestamps and the like) are
                // values too: altered to their neighbours, to extremes, to non-numbers
                for i in 0..m.len().min(6) {
                    let key = m[i].0.trim_matches('"').to_string();
                    if let Ok(k) = key.parse::<i64>() {
                        let mut alts: Vec<String> = vec![
                            "0".into(),
                            "-1".into(),
                            k.wrapping_add(1).to_string(),
                            k.wrapping_neg().to_string(),
                            "9223372036854775807".into(),
                            "-9223372036854775808".into(),
                            "99999999999999999".into(),
                            "-99999999999999999".into(),
                            "8210266876799".into(),
                            "8210266876800".into(),
                            "-8334601228800".into(),
                            "-8334601228801".into(),
                            "18446744073709551616".into(),
                            "1e3".into(),
                            "1.5".into(),
                            "".into(),
                            "x".into(),
                        ];
                        if let Some((other, _)) = m.get(i + 1) {
                            alts.push(other.trim_matches('"').to_string());
                        }
                        for alt in alts {
                            if alt == key {
                                continue;
                            }
                            let mut d = doc.clone();
                            if let Some(J::Obj(mm)) = get_mut(&mut d, p) {
                                mm[i].0 = format!("\"{}\"", alt);
                            }
                            sink(Faulted {
                                kind: "VALUE_ALTER",
                                what: format!("key {} of {} := {}", key, here, alt),
                                text: render(&d),
                            });
                        }
                    }
                }
                for i in 0..m.len() {
                    let mut d = doc.clone();
                    if let Some(J::Obj(mm)) = get_mut(&mut d, p) {
                        mm.remove(i);
                    }
                    sink(Faulted {
                        kind: "FIELD_DEL",
                        what: format!("delete member {} of {}", m[i].0, here),
                        text: render(&d),
                    });
                    let mut d = doc.clone();
                    if let Some(J::Obj(mm)) = get_mut(&mut d, p) {
                        let c = mm[i].clone();
                        mm.insert(i + 1, c);
                    }
                    sink(Faulted {
                        kind: "FIELD_DUP",
                        what: format!("duplicate member {} of {}", m[i].0, here),
                        text: render(&d),
                    });
                    // enum tag swap
                    let key = m[i].0.trim_matches('"');
                    if m.len() == 1 {
                        for fam in TAG_FAMILIES {
                            if fam.contains(&key) {
                                for alt in fam.iter() {
                                    if *alt != key {
                                        let mut d = doc.clone();
                                        if let Some(J::Obj(mm)) = get_mut(&mut d, p) {
                                            mm[i].0 = format!("\"{}\"", alt);
                                        }
                                        sink(Faulted {
                                            kind: "VALUE_ALTER",
                                            what: format!("retag {} -> {} at {}", key, alt, here),
                                            text: render(&d),
                                        });
                                    }
                                }
                            }
                        }
                    }
                }
            }
            J::Arr(a) => {
                let mut variants: Vec<(String, Vec<J>)> = Vec::new();
                if !a.is_empty() {
                    let mut v = a.clone();
                    v.pop();
                    variants.push(("drop last element".into(), v));
                    let mut v = a.clone();
                    v.remove(0);
                    variants.push(("drop first element".into(), v));
                    let mut v = a.clone();
                    v.push(a[a.len() - 1].clone());
                    variants.push(("repeat last element".into(), v));
                    variants.push(("empty the array".into(), vec![]));
                    if a.len() > 1 {
                        let mut v = a.clone();
                        v.reverse();
                        variants.push(("reverse the array".into(), v));
                    }
                } else {
                    variants.push(("add a 0".into(), vec![J::Num("0".into())]));
                }
                for (w, v) in variants {
                    let mut d = doc.clone();
                    if let Some(x) = get_mut(&mut d, p) {
                        *x = J::Arr(v);
                    }
                    sink(Faulted {
                        kind: "VALUE_ALTER",
                        what: format!("{} at {}", w, here),
                        text: render(&d),
                    });
                }
            }
            J::Num(n) => {
                let mut alts: Vec<String> = NUM_ALTS.iter().map(|s| s.to_string()).collect();
                if let Ok(i) = n.parse::<i64>() {
                    alts.push(i.wrapping_add(1).to_string());
                    alts.push(i.wrapping_sub(1).to_string());
                    alts.push(i.wrapping_neg().to_string());
                }
                alts.extend(other_nums.iter().cloned());
                // integers that LOOK consistent: sums and differences of the document's own
                // small integers and array lengths (k := len(t) + n, n := len(t) - 1, ...)
                if n.parse::<i64>().is_ok() {
                    alts.extend(derived.iter().map(|x| x.to_string()));
                }
                alts.sort();
                alts.dedup();
                for alt in alts {
                    if &alt == n {
                        continue;
                    }
                    let mut d = doc.clone();
                    if let Some(x) = get_mut(&mut d, p) {
                        *x = parse(&alt).unwrap_or(J::Null);
                    }
                    sink(Faulted {
                        kind: "VALUE_ALTER",
                        what: format!("{} := {}", here, alt),
                        text: render(&d),
                    });
                }
            }
            J::Str(s) => {
                let mut alts: Vec<String> = STR_ALTS.iter().map(|x| x.to_string()).collect();
                alts.extend(other_strs.iter().cloned());
                // the same text in another spelling: upper case, first letter upper case,
                // padded, one character short
                if s.len() <= 40 && !s.contains('\\') {
                    let inner = s.trim_matches('"');
                    let mut title = String::new();
                    for (i, c) in inner.chars().enumerate() {
                        if i == 0 {
                            title.extend(c.to_uppercase());
                        } else {
                            title.push(c);
                        }
                    }
                    alts.push(format!("\"{}\"", inner.to_uppercase()));
                    alts.push(format!("\"{}\"", title));
                    alts.push(format!("\" {}\"", inner));
                    alts.push(format!("\"{} \"", inner));
                    if let Some((cut, _)) = inner.char_indices().last() {
                        alts.push(format!("\"{}\"", &inner[..cut]));
                    }
                }
                for alt in &alts {
                    if alt == s {
                        continue;
                    }
                    let mut d = doc.clone();
                    if let Some(x) = get_mut(&mut d, p) {
                        *x = parse(alt).unwrap_or(J::Null);
                    }
                    sink(Faulted {
                        kind: "VALUE_ALTER",
                        what: format!("{} := {}", here, alt),
                        text: render(&d),
                    });
                }
            }
            J::Bool(b) => {
                let mut d = doc.clone();
                if let Some(x) = get_mut(&mut d, p) {
                    *x = J::Bool(!b);
                }
                sink(Faulted {
                    kind: "VALUE_ALTER",
                    what: format!("{} flipped", here),
                    text: render(&d),
                });
            }
            J::Null => {
                for alt in ["0", "\"\"", "[]", "{}", "1.5"] {
                    let mut d = doc.clone();
                    if let Some(x) = get_mut(&mut d, p) {
                        *x = parse(alt).unwrap();
                    }
                    sink(Faulted {
                        kind: "VALUE_ALTER",
                        what: format!("{} := {}", here, alt),
                        text: render(&d),
                    });
                }
            }
        }
    }
}

/// Arrays stored in ndarray's format `{"v":1,"dim":[..],"data":[..]}` resized CONSISTENTLY
/// (dim and data altered together, so that the array itself still loads): one or two elements
/// more or fewer, a row / column more or fewer, a transposed shape. What must then refuse the
/// document - or accept it as a value with sound shape - is the owning type's own validation.
pub fn ndarray_resizes(doc: &J, sink: &mut dyn FnMut(Faulted)) {
    for p in paths(doc) {
        let m = match get(doc, &p) {
            Some(J::Obj(m)) => m,
            _ => continue,
        };
        let find = |k: &str| m.iter().position(|(n, _)| n.trim_matches('"') == k);
        let (di, da) = match (find("dim"), find("data"), find("v")) {
            (Some(a), Some(b), Some(_)) => (a, b),
            _ => continue,
        };
        let dims: Vec<usize> = match &m[di].1 {
            J::Arr(a) => a
                .iter()
                .filter_map(|x| match x {
                    J::Num(n) => n.parse::<usize>().ok(),
                    _ => None,
                })
                .collect(),
            _ => continue,
        };
        let data: Vec<J> = match &m[da].1 {
            J::Arr(a) => a.clone(),
            _ => continue,
        };
        let here = describe(doc, &p);
        let filler = data.last().cloned().unwrap_or(J::Num("0.0".into()));
        let mut emit = |nd: Vec<usize>, ndata: Vec<J>, what: String| {
            let mut d = doc.clone();
            if let Some(J::Obj(mm)) = get_mut(&mut d, &p) {
                mm[di].1 = J::Arr(nd.iter().map(|x| J::Num(x.to_string())).collect());
                mm[da].1 = J::Arr(ndata);
            }
            sink(Faulted {
                kind: "VALUE_ALTER",
                what: format!("array at {} resized consistently: {}", here, what),
                text: render(&d),
            });
        };
        if dims.len() == 1 && dims[0] == data.len() {
            let l = data.len();
            for nl in [l + 1, l + 2, 2 * l, l.saturating_sub(1), l.saturating_sub(2)] {
                if nl == l {
                    continue;
                }
                let mut nd = data.clone();
                nd.resize(nl, filler.clone());
                emit(vec![nl], nd, format!("{} -> {} elements", l, nl));
            }
        } else if dims.len() == 2 && dims[0] * dims[1] == data.len() {
            let (r, c) = (dims[0], dims[1]);
            let mut shapes = vec![(r + 1, c), (r, c + 1), (r + 1, c + 1), (c, r)];
            // (same perimeter, another shape)
            if r > 0 {
                shapes.push((r - 1, c + 1));
            }
            if c > 0 {
                shapes.push((r + 1, c - 1));
            }
            if r > 0 {
                shapes.push((r - 1, c));
            }
            if c > 0 {
                shapes.push((r, c - 1));
            }
            if r > 0 && c > 0 {
                shapes.push((r - 1, c - 1));
            }
            for (nr, nc) in shapes {
                if (nr, nc) == (r, c) {
                    continue;
                }
                let mut nd = data.clone();
                nd.resize(nr * nc, filler.clone());
                emit(vec![nr, nc], nd, format!("{}x{} -> {}x{}", r, c, nr, nc));
            }
        }
    }
}

/// The small forms a member value can take: zero / one for numbers, empty / one element for
/// arrays (stored ndarrays consistently, `dim` and `data` together), empty string, null.
fn small_forms(j: &J) -> Vec<(J, &'static str)> {
    let mut out: Vec<(J, &'static str)> = Vec::new();
    match j {
        J::Num(n) => {
            out.push((J::Num("0".into()), "0"));
            out.push((J::Num("1".into()), "1"));
            out.push((J::Num("18446744073709551615".into()), "the largest unsigned 64-bit value"));
            if let Ok(x) = n.parse::<i64>() {
                out.push((J::Num((x + 1).to_string()), "itself plus one"));
                if x > 1 {
                    out.push((J::Num((x - 1).to_string()), "itself minus one"));
                }
            }
        }
        J::Str(_) => out.push((J::Str("\"\"".into()), "empty string")),
        J::Arr(a) => {
            out.push((J::Arr(vec![]), "empty"));
            if let Some(f) = a.first() {
                out.push((J::Arr(vec![f.clone()]), "one element"));
            }
        }
        J::Obj(m) => {
            let find = |k: &str| m.iter().position(|(n, _)| n.trim_matches('"') == k);
            if let (Some(di), Some(da), Some(_)) = (find("dim"), find("data"), find("v")) {
                if let (J::Arr(dims), J::Arr(data)) = (&m[di].1, &m[da].1) {
                    let nd = dims.len();
                    let mut e = m.clone();
                    e[di].1 = J::Arr(vec![J::Num("0".into()); nd]);
                    e[da].1 = J::Arr(vec![]);
                    out.push((J::Obj(e), "empty array"));
                    if let Some(f) = data.first() {
                        let mut o = m.clone();
                        o[di].1 = J::Arr(vec![J::Num("1".into()); nd]);
                        o[da].1 = J::Arr(vec![f.clone()]);
                        out.push((J::Obj(o), "one-element array"));
                    }
                }
            }
        }
        _ => {}
    }
    if *j != J::Null {
        out.push((J::Null, "null"));
    }
    out
}

/// Every combination of the top-level members of a document (inside a one-member wrapper
/// if there is one) each kept or replaced by one of its small forms - up to `cap` documents.
pub fn toplevel_combos(doc: &J, cap: usize, sink: &mut dyn FnMut(Faulted)) {
    let mut root: Path = vec![];
    if let J::Obj(m) = doc {
        if m.len() == 1 {
            if let J::Obj(_) = &m[0].1 {
                root = vec![0];
            }
        }
    }
    let members: Vec<(String, J)> = match get(doc, &root) {
        Some(J::Obj(m)) if m.len() >= 2 && m.len() <= 6 => m.clone(),
        _ => return,
    };
    // integer members may also take the lengths of the document's arrays, give or take one
    let mut lens: Vec<usize> = Vec::new();
    for (_, v) in &members {
        let l = match v {
            J::Arr(a) => Some(a.len()),
            J::Obj(m) => m.iter().find(|(k, _)| k.trim_matches('"') == "data").and_then(|(_, d)| match d {
                J::Arr(a) => Some(a.len()),
                _ => None,
            }),
            _ => None,
        };
        if let Some(l) = l {
            for x in [l.saturating_sub(1), l, l + 1] {
                if !lens.contains(&x) && lens.len() < 4 {
                    lens.push(x);
                }
            }
        }
    }
    let forms: Vec<Vec<(J, &'static str)>> = members
        .iter()
        .map(|(_, v)| {
            let mut f = small_forms(v);
            if let J::Num(n) = v {
                if n.parse::<i64>().is_ok() {
                    for l in &lens {
                        let cand = J::Num(l.to_string());
                        if &cand != v && !f.iter().any(|(x, _)| x == &cand) {
                            f.push((cand, "an array length of the document, give or take one"));
                        }
                    }
                }
            }
            f
        })
        .collect();
    let radix: Vec<usize> = forms.iter().map(|f| f.len() + 1).collect();
    let total: usize = radix.iter().product();
    let mut emitted = 0usize;
    for code in 1..total {
        let mut c = code;
        let mut d = doc.clone();
        let mut what = Vec::new();
        let mut changed = 0;
        for (i, r) in radix.iter().enumerate() {
            let digit = c % r;
            c /= r;
            if digit > 0 {
                let (val, label) = &forms[i][digit - 1];
                if let Some(J::Obj(mm)) = get_mut(&mut d, &root) {
                    mm[i].1 = val.clone();
                }
                what.push(format!("{} := {}", members[i].0.trim_matches('"'), label));
                changed += 1;
            }
        }
        if changed < 2 {
            continue; // single alterations are enumerated elsewhere
        }
        sink(Faulted {
            kind: "VALUE_ALTER",
            what: format!("members altered together: {}", what.join(", ")),
            text: render(&d),
        });
        emitted += 1;
        if emitted >= cap {
            break;
        }
    }
}

fn degenerate_of(j: &J) -> J {
    match j {
        J::Num(_) => J::Num("0".into()),
        J::Str(_) => J::Str("\"\"".into()),
        J::Arr(_) => J::Arr(vec![]),
        J::Obj(_) => J::Null,
        J::Bool(_) => J::Bool(false),
        J::Null => J::Num("0".into()),
    }
}

/// Several fields made degenerate AT ONCE (number -> 0, string -> "", array -> [],
/// object -> null): `mask` selects among the nodes at depth 1..=3. Coordinated edits such
/// as {k: 0, t: [], n: 0} are reachable only this way. Returns the candidate node count
/// through `count_only` when mask is None.
pub fn degenerate_nodes(doc: &J) -> Vec<Path> {
    paths(doc)
        .into_iter()
        .filter(|p| !p.is_empty() && p.len() <= 3)
        .collect()
}

pub fn degenerate_combo(doc: &J, nodes: &[Path], mask: u64) -> Option<Faulted> {
    let mut d = doc.clone();
    let mut what = Vec::new();
    // apply deepest first so that parents replaced later do not invalidate child paths
    let mut chosen: Vec<&Path> = nodes
        .iter()
        .enumerate()
        .filter(|(i, _)| mask & (1u64 << i) != 0)
        .map(|(_, p)| p)
        .collect();
    if chosen.len() < 2 {
        return None;
    }
    chosen.sort_by_key(|p| std::cmp::Reverse(p.len()));
    for p in chosen {
        if let Some(x) = get_mut(&mut d, p) {
            let dg = degenerate_of(x);
            *x = dg;
            what.push(describe(doc, p));
        }
    }
    Some(Faulted {
        kind: "VALUE_ALTER",
        what: format!("made degenerate together: {}", what.join(", ")),
        text: render(&d),
    })
}

/// One random structured fault (same repertoire as `structured_faults`), tree to tree.
/// `pick(n)` must return a number in 0..n.
pub fn random_fault(doc: &J, pick: &mut dyn FnMut(usize) -> usize) -> Option<(J, String)> {
    let all = paths(doc);
    if all.is_empty() {
        return None;
    }
    let p = all[pick(all.len())].clone();
    let here = describe(doc, &p);
    let mut d = doc.clone();
    let node = get(doc, &p)?.clone();
    let what;
    match node {
        J::Obj(m) => {
            if m.is_empty() {
                return None;
            }
            let i = pick(m.len());
            if let Some(J::Obj(mm)) = get_mut(&mut d, &p) {
                match pick(3) {
                    0 => {
                        mm.remove(i);
                        what = format!("delete member {} of {}", m[i].0, here);
                    }
                    1 => {
                        let c = mm[i].clone();
                        mm.insert(i + 1, c);
                        what = format!("duplicate member {} of {}", m[i].0, here);
                    }
                    _ => {
                        let dg = degenerate_of(&mm[i].1);
                        mm[i].1 = dg;
                        what = format!("member {} of {} made degenerate", m[i].0, here);
                    }
                }
            } else {
                return None;
            }
        }
        J::Arr(a) => {
            let v = match pick(4) {
                0 => vec![],
                1 if !a.is_empty() => a[..a.len() - 1].to_vec(),
                2 if !a.is_empty() => {
                    let mut v = a.clone();
                    v.push(a[a.len() - 1].clone());
                    v
                }
                _ => {
                    let mut v = a.clone();
                    v.reverse();
                    v
                }
            };
            what = format!("array at {} altered", here);
            *get_mut(&mut d, &p)? = J::Arr(v);
        }
        J::Num(_) => {
            let alt = NUM_ALTS[pick(NUM_ALTS.len())];
            what = format!("{} := {}", here, alt);
            *get_mut(&mut d, &p)? = parse(alt).unwrap_or(J::Null);
        }
        J::Str(_) => {
            let alt = STR_ALTS[pick(STR_ALTS.len())];
            what = format!("{} := {}", here, alt);
            *get_mut(&mut d, &p)? = parse(alt).unwrap_or(J::Null);
        }
        J::Bool(b) => {
            what = format!("{} flipped", here);
            *get_mut(&mut d, &p)? = J::Bool(!b);
        }
        J::Null => {
            what = format!("{} := 0", here);
            *get_mut(&mut d, &p)? = J::Num("0".into());
        }
    }
    Some((d, what))
}

/// Every truncation offset (on UTF-8 boundaries), 0..len-1.
pub fn truncations(text: &str, sink: &mut dyn FnMut(Faulted)) {
    truncations_on(text, 1, 0, sink)
}

/// As `truncations`, at every `stride`-th byte only (plus the first and last 64 cuts).
pub fn truncations_on(text: &str, stride: usize, phase: usize, sink: &mut dyn FnMut(Faulted)) {
    for k in 0..text.len() {
        if stride > 1 && k % stride != phase % stride && k >= 64 && k + 64 < text.len() {
            continue;
        }
        if text.is_char_boundary(k) {
            sink(Faulted {
                kind: "TRUNC",
                what: format!("keep the first {} of {} bytes", k, text.len()),
                text: text[..k].to_string(),
            });
        }
    }
}

pub const STRUCTURAL_BYTES: &[u8] = b"{}[],:\"-0123456789.eE \\ntfu";

/// One byte replaced by a structural ASCII byte, or one low bit flipped (ASCII only so
/// that the text stays valid UTF-8: invalid UTF-8 never reaches a `&str` API).
pub fn byte_fault(text: &str, pos: usize, choice: usize) -> Option<Faulted> {
    let b = text.as_bytes();
    if pos >= b.len() || b[pos] >= 0x80 {
        return None;
    }
    let mut v = b.to_vec();
    let nb = if choice < STRUCTURAL_BYTES.len() {
        STRUCTURAL_BYTES[choice]
    } else {
        let bit = (choice - STRUCTURAL_BYTES.len()) % 7;
        b[pos] ^ (1 << bit)
    };
    if nb == b[pos] || nb >= 0x80 {
        return None;
    }
    v[pos] = nb;
    let t = String::from_utf8(v).ok()?;
    Some(Faulted {
        kind: "BYTE",
        what: format!("byte {} {:?} -> {:?}", pos, b[pos] as char, nb as char),
        text: t,
    })
}

/// Torn overwrite: first k bytes of the new version, rest of the old version.
pub fn splice(newer: &str, older: &str, k: usize) -> Option<Faulted> {
    if k > newer.len() || k > older.len() || !newer.is_char_boundary(k) || !older.is_char_boundary(k)
    {
        return None;
    }
    let t = format!("{}{}", &newer[..k], &older[k..]);
    if t == newer || t == older {
        return None;
    }
    Some(Faulted {
        kind: "SPLICE",
        what: format!(
            "first {} bytes of the new version followed by the old version's tail",
            k
        ),
        text: t,
    })
}
