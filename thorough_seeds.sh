#!/bin/bash
# all four thorough checks at several VERIF_SEED values (background validation of the thorough tier)
# usage: ./thorough_seeds.sh <seed>...
cd "$(dirname "$0")"
export VERIF_DIR="$(pwd)"
./check build || exit 2
bad=0
for s in "$@"; do
  for p in C10 C12 C16 C20; do
    out=$(VERIF_SEED=$s sim/target/release/rlsim check $p thorough 2>&1); code=$?
    if [ $code -ne 0 ]; then bad=$((bad+1)); echo "SEED $s $p exit=$code"; echo "$out" | tail -12; fi
    echo "seed $s $p thorough done (bad so far: $bad)"
  done
done
echo "THOROUGH SEEDS DONE bad=$bad"
