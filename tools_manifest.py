#!/usr/bin/env python3
"""Regenerate /verif/MANIFEST.json from the table below (keeps it valid at all times)."""
import json, subprocess, sys
CLAIMED = {
 "C10": dict(level="exploration", design="DESIGN.md §4 C10",
   text="Seeded deterministic simulation of update / set_ad_order / refused-update / clone histories on a live FXRates; after every step all n^2 rates, their variable names, gradients and Hessians are checked against a reference model (tree path product with closed-form log-derivative sensitivities, an independent name-keyed reference AD, and a fresh market built from the latest quotes). Sampling, not proof: histories and markets are drawn from a seeded PRNG; every failure is minimised and replayable.",
   note="Trusted: the reference model (refad.rs self-checked against finite differences at start-up), the tolerance model (running first-order error bound x 1e5 eps), rustc/serde. Not covered: reversed-pair or duplicate-pair updates (outcome not stated by the property); thread schedules (none exist: all mutation is behind &mut self).",
   technique="deterministic simulation: seeded operation histories with injected refused/late-failing updates vs reference model"),
 "C12": dict(level="exploration", design="DESIGN.md §4 C12",
   text="Seeded curves (five interpolation rules, float/Dual/Dual2 nodes, shuffled supply order, Rust CurveDF and the Python-facing Curve constructor) on each of which EVERY set_ad_order switch sequence over {0,1,2} up to depth 3 (quick) / 4-5 (thorough) is executed; after every switch every probed look-up and index value is compared in value, kind, variable names, gradient and Hessian with the rule's closed form evaluated in an independent reference AD under a tag state machine. The history dimension is exhaustive up to the bound per curve; curves and dates are sampled.",
   note="Trusted: reference AD + closed forms in c12.rs (independent of rateslib's layout), tolerance model, the verif-hooks re-export of the crate-private Curve. Not covered: curves with nodes of mixed number kinds (tagging of those is not stated by the property).",
   technique="deterministic simulation: exhaustive-to-depth set_ad_order histories on seeded curves vs reference model"),
 "C16": dict(level="exploration", design="DESIGN.md §4 C16",
   text="Twin-run crash/restart simulation: for seeded lives of every serialisable type (Dual/Dual2 with a storage-sharing partner, Cal, UnionCal, NamedCal, CurveDF x 5 rules, the Python-facing Curve with all three calendar kinds, FXRates under the C10 history alphabet, PPSpline f64/Dual/Dual2 unsolved/solved/re-solved) one twin is crashed and restarted from its durable bytes (JSON, tagged JSON, bincode, and Python's pickle driven in an embedded interpreter) at seeded points, including right after construction, after refused operations and back-to-back; it must load, compare == to the twin that never restarted, answer the whole query suite bit-identically, re-save to the same bytes, and stay in lock-step afterwards. Contents are dominated by uniformly random finite bit patterns. Sampling, not proof.",
   note="Trusted: the never-restarted twin as oracle (so a defect that corrupts both twins identically is invisible here), serde_json/bincode themselves. Assumes finite contents, distinct variable names, a working weekday. FX markets are compared after set_ad_order(One) on the original, rates within 64 eps before that, as the property words it.",
   technique="deterministic simulation: seeded crash/restart from durable bytes at arbitrary life points, twin-run oracle"),
 "C20": dict(level="fault_enumeration", design="DESIGN.md §4 C20",
   text="Storage-fault enumeration on durable JSON: for every seeded document (each serialisable type, through its direct loader, the tagged from_json container and CalType) every truncation offset, every member deletion/duplication at every depth, every scalar x every alternative value, every array grow/shrink/reverse, every enum-tag swap and the misdirected read by every other loader are executed (single-byte damage and torn splices sampled in quick, splices complete in thorough); each load must not unwind or abort, and an accepted value must satisfy its type's shape invariants and survive a query suite. The other clauses of the property (constructors, date arithmetic over all 256 day counts, month offsets landing in 1971-2199, roll days 1-31, csolve) are pure functions: for them the check is seeded argument generation over the documented ranges under the same no-unwind monitor, and is labelled as generation in the evidence.",
   note="Exhaustive per document over the listed fault sub-spaces; the documents are a seeded sample. Shape invariants are the dimensional relations established by the public constructors (DESIGN §4 C20). Worker-process death is treated as abort. Trusted: catch_unwind + panic hook, the harness JSON tree (jsonf.rs).",
   technique="deterministic simulation: complete enumeration of storage faults on durable JSON per seeded document + no-unwind monitor"),
}
NA = {
 "C01": "pure function of (expression, point, tagging): no history, fault, clock, I/O or interleaving for a simulator to control; its chain rules run incidentally inside the C10/C12 oracles but are not claimed",
 "C02": "same as C01 at second order: a pure function of its inputs, nothing for a simulator to schedule or fail",
 "C03": "result depends only on the two operands; shared vs unshared variable storage is a layout reachable by construction, not by a schedule or fault (its restart face - sharing lost on load - is exercised under C16)",
 "C04": "date adjustment is a pure function of (calendar, date, modifier, flag); calendars are immutable after construction and no clock is read",
 "C05": "business-day arithmetic is a pure function; its loops terminate by a precondition on the week mask, not by timing",
 "C06": "union / named calendars are pure look-ups and a pure behavioural ==; names are parsed afresh on each call (no cache or registry); the rebuilt-on-load face of NamedCal is under C16",
 "C07": "a statement about static tables and shipped CSV histories; nothing executes over time, no fault or schedule can change a table",
 "C08": "month / roll-day arithmetic is pure integer and date arithmetic",
 "C09": "market construction is a pure function of (quotes, base); input order and tree shape are argument permutations, not schedules (every state of a C10 history is incidentally a fresh triangulation, unclaimed)",
 "C11": "curve look-up is a pure function of (nodes, rule, date); evaluated incidentally at order 0 inside C12, unclaimed",
 "C12": "NOT YET BUILT in this revision (planned: seeded set_ad_order histories vs reference model, DESIGN §4 C12)",
 "C13": "linear solver is a pure numerical function of (A, b)",
 "C14": "B-spline basis evaluation is a pure numerical function",
 "C15": "speaks only of the state after one successful solve; no history, fault or restart in it (restart of solved/unsolved splines is under C16, refusal of mismatched data under C20)",
 "C16": "NOT YET BUILT in this revision (planned: crash/restart from durable bytes with twin oracle, DESIGN §4 C16)",
 "C17": "gradient read-back is a pure function of (number, name list)",
 "C18": "order/kind conversions are pure functions; their stateful use is C10/C12",
 "C19": "comparisons, abs, remainder, sum, identities are pure functions",
 "C20": "NOT YET BUILT in this revision (planned: storage-fault enumeration on durable JSON, DESIGN §4 C20)",
}
def main():
    hooks_commits = subprocess.run(["git","-C","/repo","log","--format=%H %s"],capture_output=True,text=True).stdout.splitlines()
    hook = [l.split()[0] for l in hooks_commits if "verif-hooks" in l]
    checks=[]
    for pid,c in sorted(CLAIMED.items()):
        checks.append(dict(property_id=pid, quick_cmd=f"./check {pid} quick", thorough_cmd=f"./check {pid} thorough",
            evidence_file=f"/verif/evidence/{pid}.json", replay_cmd_template="./check replay {path}", engine="rlsim",
            level_claimed=dict(category=c["level"], text=c["text"], design_ref=c["design"]), level_note=c["note"], technique=c["technique"]))
    na=[dict(property_id=k, reason=v) for k,v in sorted(NA.items()) if k not in CLAIMED]
    m=dict(version=1, setup_cmd="./check build",
      hooks=dict(guard="cargo feature verif-hooks", enable="the simulator crate /verif/sim depends on rateslib = { path = \"/repo\", features = [\"verif-hooks\"] }; ./check rebuilds it from /repo's working tree on every invocation",
                 baseline_off_cmd="cd /repo && cargo test --workspace --no-fail-fast --offline", source_commits=hook, add_only=True),
      engines=[dict(name="rlsim", path="/verif/sim", serves_properties=sorted(CLAIMED), kind_free_text="deterministic simulator: PRNG-generated plans (operation histories, restarts, storage faults), PRNG-free execution against the real Rust core in worker processes, reference-model oracles, plan minimisation, replay files")],
      checks=checks, not_applicable=na,
      notes="Deterministic simulation with fault injection. See DESIGN.md. Exit codes of every check: 0 held, 1 violation (VIOLATION line + replay file), 2 harness error.")
    json.dump(m, open("/verif/MANIFEST.json","w"), indent=1)
    import jsonschema
    jsonschema.validate(m, json.load(open("/root/.vp/MANIFEST.schema.json")))
    print("MANIFEST ok:", len(checks), "checks,", len(na), "n/a")
main()
