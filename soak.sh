#!/bin/bash
# Multi-seed soak: every check at many VERIF_SEED values; any non-zero exit is printed.
# usage: ./soak.sh <first-seed> <last-seed> [tier]
cd "$(dirname "$0")"
tier=${3:-quick}
export VERIF_DIR="$(pwd)"
./check build || exit 2
bad=0
for s in $(seq $1 $2); do
  for p in C10 C12 C16 C20; do
    out=$(VERIF_SEED=$s sim/target/release/rlsim check $p $tier 2>&1); code=$?
    if [ $code -ne 0 ]; then bad=$((bad+1)); echo "SEED $s $p exit=$code"; echo "$out" | tail -12; fi
  done
  echo "seed $s done (bad so far: $bad)"
done
echo "SOAK DONE bad=$bad"
