#!/bin/bash
# all four thorough checks, one after the other (for background validation runs)
cd "$(dirname "$0")"
export VERIF_DIR="$(pwd)"
./check build || exit 2
for p in C10 C12 C16 C20; do
  /usr/bin/time -f "$p wall %es" sim/target/release/rlsim check $p thorough 2>&1 | tail -4
done
echo THOROUGH DONE
